(** C11 / C10 / C07: frame initialisation -- exact header consumption, a fresh per-frame state, the window limit. *)
Require Import Zrs.lib.RsPrelude Zrs.gen.Generated Zrs.model.Headers Zrs.model.BitIO Zrs.model.FseDec Zrs.model.HufDec Zrs.model.BlockDec Zrs.model.FrameDec.
Require Import Zrs.proofs.C06_Drain Zrs.proofs.C05_Block Zrs.proofs.C06_Frame Zrs.proofs.C14_Headers.
Open Scope Z_scope.

Definition dict_ok (dd : dictionary) : Prop := hist_ok (d_hist dd).

Lemma le_val_nonneg l : bytes_ok l = true -> 0 <= le_val l.
Proof.
  induction l as [|b t IH]; cbn [le_val bytes_ok forallb]; [lia|]. intros H. apply andb_true_iff in H as [Hb Ht].
  unfold byte_ok in Hb. specialize (IH Ht). lia.
Qed.

Lemma bytes_ok_firstn n l : bytes_ok l = true -> bytes_ok (firstn n l) = true.
Proof. intros H. rewrite <- (firstn_skipn n l) in H. apply (bytes_ok_app _ _ H). Qed.
Lemma bytes_ok_skipn n l : bytes_ok l = true -> bytes_ok (skipn n l) = true.
Proof. intros H. rewrite <- (firstn_skipn n l) in H. apply (bytes_ok_app _ _ H). Qed.

Lemma take_spec n src a r : Headers.take n src = Some (a, r) -> src = a ++ r /\ length a = n.
Proof.
  unfold Headers.take. destruct (Nat.ltb (length src) n) eqn:E; [discriminate|]. intros H. inversion H; subst.
  apply Nat.ltb_ge in E. split; [symmetry; apply firstn_skipn|apply firstn_length_le; exact E].
Qed.

Definition rfh_tail (d wd : Z) (r3 : list Z) (n_wd : Z) : fh_result :=
                match dictionary_id_bytes d with
                | RErr e => FhErr e
                | RPanic e => FhPanic e
                | ROk did_len =>
                    match Headers.take (Z.to_nat did_len) r3 with
                    | None => FhErr "DictionaryIdReadError"
                    | Some (db, r4) =>
                        let did := le_val db in
                        let dict_id := if (did_len =? 0) || (did =? 0) then None else Some did in
                        match frame_content_size_bytes d with
                        | RErr e => FhErr e
                        | RPanic e => FhPanic e
                        | ROk fcs_len =>
                            match Headers.take (Z.to_nat fcs_len) r4 with
                            | None => FhErr "FrameContentSizeReadError"
                            | Some (fb, _) =>
                                let fcs := le_val fb in
                                let fcs := if fcs_len =? 2 then fcs + 256 else fcs in
                                FhOk {| fh_desc := d; fh_wd := wd; fh_dict_id := dict_id; fh_fcs := fcs |}
                                     (4 + 1 + n_wd + did_len + fcs_len)
                            end
                        end
                    end
                end.

Lemma rfh_tail_spec d wd r3 n_wd h n : rfh_tail d wd r3 n_wd = FhOk h n ->
  exists tl rest, r3 = tl ++ rest /\ n = 5 + n_wd + Z.of_nat (length tl) /\ Z.of_nat (length tl) <= 12 /\
    fh_desc h = d /\ fh_wd h = wd /\ (bytes_ok r3 = true -> 0 <= fh_fcs h).
Proof.
  unfold rfh_tail. intros H.
  destruct (dictionary_id_bytes d) as [did_len| |] eqn:Ed; try discriminate.
  assert (0 <= did_len <= 4) as Hdl.
  { unfold dictionary_id_bytes in Ed. repeat match type of Ed with (let _ := _ in _) = _ => cbv zeta in Ed
      | (if ?c then _ else _) = _ => destruct c; [inversion Ed; lia|] end. discriminate. }
  destruct (Headers.take (Z.to_nat did_len) r3) as [[db r4]|] eqn:T4; [|discriminate].
  destruct (take_spec _ _ _ _ T4) as [-> L4].
  destruct (frame_content_size_bytes d) as [fcs_len| |] eqn:Ef; try discriminate.
  assert (0 <= fcs_len <= 8) as Hfl.
  { unfold frame_content_size_bytes in Ef. repeat match type of Ef with (let _ := _ in _) = _ => cbv zeta in Ef
      | (if ?c then _ else _) = _ => destruct c; [try (inversion Ef; lia)|] end; try discriminate.
    destruct (single_segment_flag d); inversion Ef; lia. }
  destruct (Headers.take (Z.to_nat fcs_len) r4) as [[fb r5]|] eqn:T5; [|discriminate].
  destruct (take_spec _ _ _ _ T5) as [-> L5].
  remember (4 + 1 + n_wd + did_len + fcs_len) as nn eqn:En in H.
  injection H as Hh Hn; subst h n. cbn [fh_desc fh_wd fh_fcs].
  exists (db ++ fb), r5. rewrite <- app_assoc. split; [reflexivity|]. rewrite app_length.
  split; [lia|]. split; [lia|]. split; [reflexivity|]. split; [reflexivity|].
  intros B. destruct (bytes_ok_app _ _ B) as [_ B2]. destruct (bytes_ok_app _ _ B2) as [B3 _].
  pose proof (le_val_nonneg fb B3). destruct (fcs_len =? 2); lia.
Qed.

(** the header reader consumes exactly the bytes of the fields the descriptor announces *)
Lemma read_frame_header_consumed src h n : read_frame_header src = FhOk h n ->
  exists hd rest, src = hd ++ rest /\ Z.of_nat (length hd) = n /\ 5 <= n <= 18 /\
    (bytes_ok src = true -> 0 <= fh_fcs h /\ 0 <= fh_wd h < 256).
Proof.
  unfold read_frame_header. intros H.
  destruct (Headers.take 4 src) as [[m r1]|] eqn:T1; [|discriminate].
  destruct (take_spec _ _ _ _ T1) as [-> L1].
  match type of H with (if ?c then _ else _) = _ => destruct c; [destruct (Headers.take 4 r1) as [[? ?]|]; discriminate|] end.
  match type of H with (if ?c then _ else _) = _ => destruct c; [discriminate|] end.
  destruct (Headers.take 1 r1) as [[dl r2]|] eqn:T2; [|discriminate].
  destruct (take_spec _ _ _ _ T2) as [-> L2].
  set (d := znth dl 0) in *.
  destruct (single_segment_flag d) eqn:Ess.
  - change (rfh_tail d 0 r2 0 = FhOk h n) in H.
    destruct (rfh_tail_spec _ _ _ _ _ _ H) as (tl & rest & -> & Hn & Ht & _ & Hwd & Hf).
    exists (m ++ dl ++ tl), rest. rewrite <- !app_assoc. split; [reflexivity|]. rewrite !app_length.
    split; [lia|]. split; [lia|]. intros B. rewrite Hwd. split; [|lia]. apply Hf.
    destruct (bytes_ok_app _ _ B) as [_ B1]. apply (bytes_ok_app _ _ B1).
  - destruct (Headers.take 1 r2) as [[w r3]|] eqn:T3; [|discriminate].
    destruct (take_spec _ _ _ _ T3) as [-> L3].
    change (rfh_tail d (znth w 0) r3 1 = FhOk h n) in H.
    destruct (rfh_tail_spec _ _ _ _ _ _ H) as (tl & rest & -> & Hn & Ht & _ & Hwd & Hf).
    exists (m ++ dl ++ w ++ tl), rest. rewrite <- !app_assoc. split; [reflexivity|]. rewrite !app_length.
    split; [lia|]. split; [lia|]. intros B. rewrite Hwd.
    destruct (bytes_ok_app _ _ B) as [_ B1]. destruct (bytes_ok_app _ _ B1) as [_ B2]. destruct (bytes_ok_app _ _ B2) as [Bw B3].
    split; [apply Hf; exact B3|]. apply bytes_ok_nth. exact Bw.
Qed.

Lemma window_nonneg h w : 0 <= fh_wd h < 256 -> 0 <= fh_fcs h -> fh_window_size h = ROk w -> 0 <= w.
Proof.
  intros Hwd Hf H. unfold fh_window_size in H. rewrite (window_size_spec _ _ _ Hwd) in H.
  destruct (single_segment_flag (fh_desc h)); inversion H; subst; [exact Hf|].
  pose proof (window_bounds (fh_wd h) Hwd). lia.
Qed.

Lemma scratch_new_ok w : scratch_ok (scratch_new w).
Proof. split; [reflexivity|]. exists 1, 4, 8. repeat split; lia. Qed.
Lemma scratch_reset_ok sc w : scratch_ok (scratch_reset sc w).
Proof. split; [reflexivity|]. exists 1, 4, 8. repeat split; lia. Qed.
Lemma init_from_dict_ok sc dd : scratch_ok sc -> dict_ok dd -> scratch_ok (scratch_init_from_dict sc dd).
Proof. intros [W H] D. split; [exact W|exact D]. Qed.

(** initialisation: a fresh per-frame state, exactly the header consumed *)
Theorem fdec_reset_spec d src d' rest evs :
  bytes_ok src = true -> Forall dict_ok (fd_dicts d) ->
  fdec_reset d src = ROk (d', rest, evs) ->
  exists s hd, fd_state d' = Some s /\ st_ok s /\ src = hd ++ rest /\ fr_bytes_read s = Z.of_nat (length hd) /\
    db_rev (st_buf s) = [] /\ db_hashed_rev (st_buf s) = [] /\ 0 <= db_window (st_buf s) /\
    fr_finished s = false /\ fr_blocks s = 0 /\ fr_checksum s = None /\
    fd_dicts d' = fd_dicts d /\ fd_max_window d' = fd_max_window d /\
    fh_window_size (fr_header s) = ROk (db_window (st_buf s)) /\ db_window (st_buf s) <= fd_max_window d.
Proof.
  intros B HD H. unfold fdec_reset, frame_front in H.
  destruct (read_frame_header src) as [h n|m len|e|e] eqn:Eh; try discriminate.
  destruct (read_frame_header_consumed _ _ _ Eh) as (hd & rst & Hsrc & Ln & Hn & Hfields).
  destruct (Hfields B) as [Hf Hwd].
  destruct (fh_window_size h) as [w| |] eqn:Ew; cbn [rbind] in H; try discriminate.
  pose proof (window_nonneg h w Hwd Hf Ew) as Hw.
  unfold check_window_size in H. destruct (w >? fd_max_window d) eqn:Emax; cbn [rbind] in H; [discriminate|].
  assert (drop_z n src = rst) as Hdrop.
  { unfold drop_z. rewrite Hsrc. rewrite <- Ln, Nat2Z.id. rewrite skipn_app, skipn_all, Nat.sub_diag. reflexivity. }
  rewrite Hdrop in H.
  assert (forall sc evs0, scratch_ok sc -> db_rev (sc_buf sc) = [] -> db_hashed_rev (sc_buf sc) = [] -> db_window (sc_buf sc) = w ->
    match fh_dict_id h with
    | Some id =>
        match find (fun dd => d_id dd =? id) (fd_dicts d) with
        | None => RErr "DictNotProvided"
        | Some dd =>
            ROk ({| fd_state := Some {| fr_header := h; fr_scratch := scratch_init_from_dict sc dd; fr_finished := false;
                                         fr_blocks := 0; fr_bytes_read := n; fr_checksum := None; fr_using_dict := Some id |};
                    fd_dicts := fd_dicts d; fd_max_window := fd_max_window d |}, rst, evs0)
        end
    | None => ROk ({| fd_state := Some {| fr_header := h; fr_scratch := sc; fr_finished := false; fr_blocks := 0;
                                           fr_bytes_read := n; fr_checksum := None; fr_using_dict := None |};
                      fd_dicts := fd_dicts d; fd_max_window := fd_max_window d |}, rst, evs0)
    end = ROk (d', rest, evs) ->
    exists s hd, fd_state d' = Some s /\ st_ok s /\ src = hd ++ rest /\ fr_bytes_read s = Z.of_nat (length hd) /\
      db_rev (st_buf s) = [] /\ db_hashed_rev (st_buf s) = [] /\ 0 <= db_window (st_buf s) /\
      fr_finished s = false /\ fr_blocks s = 0 /\ fr_checksum s = None /\
      fd_dicts d' = fd_dicts d /\ fd_max_window d' = fd_max_window d /\
      fh_window_size (fr_header s) = ROk (db_window (st_buf s)) /\ db_window (st_buf s) <= fd_max_window d) as Tail.
  { intros sc evs0 Sok S1 S2 S3 HH.
    destruct (fh_dict_id h) as [id|].
    - destruct (find (fun dd => d_id dd =? id) (fd_dicts d)) as [dd|] eqn:Ef; [|discriminate].
      injection HH as Hd' Hr He. subst d' rest evs.
      assert (dict_ok dd) as Dok by (rewrite Forall_forall in HD; apply HD; eapply find_some; exact Ef).
      eexists _, hd. cbn [fd_state fd_dicts fd_max_window].
      split; [reflexivity|]. split; [apply init_from_dict_ok; assumption|]. split; [exact Hsrc|]. split; [cbn; lia|].
      unfold st_buf. cbn. rewrite S1, S2, S3. repeat split; try reflexivity; try lia. exact Ew.
    - injection HH as Hd' Hr He. subst d' rest evs.
      eexists _, hd. cbn [fd_state fd_dicts fd_max_window].
      split; [reflexivity|]. split; [exact Sok|]. split; [exact Hsrc|]. split; [cbn; lia|].
      unfold st_buf. cbn. rewrite S1, S2, S3. repeat split; try reflexivity; try lia. exact Ew. }
  destruct (fd_state d) as [s0|]; cbv beta iota zeta in H.
  - apply (Tail _ _ (scratch_reset_ok _ _) eq_refl eq_refl eq_refl H).
  - apply (Tail _ _ (scratch_new_ok _) eq_refl eq_refl eq_refl H).
Qed.

(** *** C11: the window limit is applied at initialisation, identically on first use and on reuse *)
Theorem reset_rejects_large_window d src h n w :
  read_frame_header src = FhOk h n -> fh_window_size h = ROk w -> fd_max_window d < w ->
  fdec_reset d src = RErr "WindowSizeTooBig".
Proof.
  intros Eh Ew Hw. unfold fdec_reset, frame_front. rewrite Eh, Ew. cbn [rbind].
  unfold check_window_size. assert (w >? fd_max_window d = true) as -> by lia. reflexivity.
Qed.

Theorem reset_rejects_illegal_window d src h n e :
  read_frame_header src = FhOk h n -> fh_window_size h = RErr e -> fdec_reset d src = RErr e.
Proof. intros Eh Ew. unfold fdec_reset, frame_front. rewrite Eh, Ew. reflexivity. Qed.

Theorem reset_accepts_window d src h n w :
  read_frame_header src = FhOk h n -> fh_window_size h = ROk w -> w <= fd_max_window d -> fh_dict_id h = None ->
  exists d' evs, fdec_reset d src = ROk (d', drop_z n src, evs) /\
    (* the reservation of the window never precedes the check *)
    (evs = [EvHeader; EvWindowOk w] \/ evs = [EvHeader; EvWindowOk w; EvReserve w]).
Proof.
  intros Eh Ew Hw Hd. unfold fdec_reset, frame_front. rewrite Eh, Ew. cbn [rbind].
  unfold check_window_size. assert (w >? fd_max_window d = false) as -> by lia. cbn [rbind].
  destruct (fd_state d); cbv beta iota zeta; rewrite Hd; eexists _, _; (split; [reflexivity|]); [right|left]; reflexivity.
Qed.

(** the verdict does not depend on whether the decoder was used before *)
Theorem reset_verdict_independent_of_history d1 d2 src :
  fd_max_window d1 = fd_max_window d2 -> fd_dicts d1 = fd_dicts d2 ->
  is_ok (fdec_reset d1 src) = is_ok (fdec_reset d2 src).
Proof.
  intros Hm Hd. unfold fdec_reset, frame_front. rewrite Hm, Hd.
  destruct (read_frame_header src) as [h n| | |]; try reflexivity.
  destruct (fh_window_size h) as [w| |]; cbn [rbind]; try reflexivity.
  destruct (check_window_size w (fd_max_window d2)); cbn [rbind]; try reflexivity.
  destruct (fd_state d1), (fd_state d2); cbv beta iota zeta;
    destruct (fh_dict_id h); try reflexivity; destruct (find _ (fd_dicts d2)); reflexivity.
Qed.

Theorem max_window_clamped d m : fd_max_window (fdec_set_max_window d m) = Z.min m MAX_WINDOW_SIZE.
Proof. reflexivity. Qed.
Theorem default_max_window : fd_max_window fdec_new = 128 * 1024 * 1024.
Proof. reflexivity. Qed.

Lemma accepted_window_within_limit d src d' rest evs :
  bytes_ok src = true -> Forall dict_ok (fd_dicts d) -> fdec_reset d src = ROk (d', rest, evs) ->
  exists s, fd_state d' = Some s /\ fh_window_size (fr_header s) = ROk (db_window (st_buf s)) /\
            db_window (st_buf s) <= fd_max_window d.
Proof.
  intros B HD H. destruct (fdec_reset_spec _ _ _ _ _ B HD H) as (s & hd & Hs & R).
  exists s. split; [exact Hs|]. destruct R as (_&_&_&_&_&_&_&_&_&_&_&A&B'). split; assumption.
Qed.
