(** C02: obligation O2 for a treeless Huffman-coded literals section (the compressor re-uses the table of an earlier block):
    the streams are coded with the compressor's code for the earlier weights, the decoder still holds the table it built
    from them -- and reads back exactly the literals. *)
Require Import Zrs.lib.RsPrelude Zrs.gen.Generated Zrs.model.Headers Zrs.model.BitIO Zrs.model.BitStream Zrs.model.FseDec Zrs.model.HufDec Zrs.model.BlockDec Zrs.model.LitEnc Zrs.model.BlockEnc Zrs.model.HufEnc.
Require Import Zrs.proofs.C13_Canonical Zrs.proofs.C13_CanonCode Zrs.proofs.C13_Agree Zrs.proofs.C02_Concrete Zrs.proofs.C02_O2Table Zrs.proofs.C02_O2Huffman.
Open Scope Z_scope.

Theorem treeless_section_meets_O2_strong ht0 src t used :
  huf_build_decoder ht0 src = ROk (t, used) -> Forall (fun w => 0 <= w) (ht_weights t) -> (length (ht_weights t) <= 255)%nat ->
  exists lw codes, 1 <= lw /\ enc_build_from_weights (ht_weights t ++ [lw]) = ROk codes /\
    forall lits,
      Forall (fun s => 0 <= s <= Z.of_nat (length (ht_weights t)) /\ 0 < nth (Z.to_nat s) (ht_weights t ++ [lw]) 0) lits ->
      16 <= Z.of_nat (length lits) <= 131072 ->
      let payload := huf4_bytes (code_fn codes) lits in
      zlen payload < zlen lits ->
      lit_ok t lits (huf_lit_header 3 (zlen lits) (zlen payload)) payload t.
Proof.
  intros Hb Hw Hl. pose proof Hb as Hb0. unfold huf_build_decoder in Hb.
  destruct (read_weights ht0 src) as [[[ws ft] bytes]|e|e]; cbn [rbind] in Hb; try discriminate.
  destruct (build_table_from_weights ws) as [[[[[dec M] bits] ranks] idxs]|e|e] eqn:Eb; cbn [rbind] in Hb; try discriminate.
  injection Hb as Et _. rewrite <- Et in *. cbn [ht_weights] in *.
  set (t' := {| ht_decode := dec; ht_len := 2 ^ M; ht_weights := ws; ht_max_bits := M; ht_bits := bits; ht_bit_ranks := ranks; ht_rank_indexes := idxs; ht_fse := ft |}) in *.
  pose proof (encoder_and_decoder_agree ws dec M bits ranks idxs t' Hw Hl Eb eq_refl eq_refl) as X. destruct X as (lw & codes & Hlw & Henc & Hag & Ebits).
  exists lw, codes. split; [lia|]. split; [exact Henc|]. intros lits Hlits Hn Hpl. set (payload := huf4_bytes (code_fn codes) lits) in *.
  assert (Ecodes : forall s, In s lits -> code_fn codes s = code_of_dec t' s).
  { intros s Hs. rewrite Forall_forall in Hlits. destruct (Hlits s Hs) as (A & B). symmetry. apply (Hag s A B). }
  assert (Epay : payload = [] ++ huf4_bytes (code_of_dec t') lits) by (unfold payload; rewrite (huf4_ext _ _ lits Ecodes); reflexivity).
  assert (Hdel : deliverable t' lits).
  { destruct (built_table_blocks ws dec M bits ranks idxs Hw Hl Eb) as (placed & _ & Hblk & _ & Hsyms).
    destruct (accepted_weights_have_lengths ws dec M bits ranks idxs Hw Eb) as (Lb & Hmid & Hlast).
    apply Forall_forall. intros s Hs. rewrite Forall_forall in Hlits. destruct (Hlits s Hs) as (A & B).
    assert (Hj : (Z.to_nat s < length bits)%nat) by lia.
    assert (Hpos : 0 < nth (Z.to_nat s) bits 0).
    { destruct (Nat.lt_ge_cases (Z.to_nat s) (length ws)) as [Hlt|Hge].
      - apply Hmid; [exact Hlt|]. rewrite app_nth1 in B by exact Hlt. exact B.
      - replace (Z.to_nat s) with (length ws) by lia. exact Hlast. }
    destruct (Hsyms (Z.to_nat s) Hj Hpos) as (base & Hin & _). destruct (Hblk _ _ _ Hin) as (B1 & B2 & B3 & B4 & B5 & B6).
    exists base. assert (P : 0 < 2 ^ Z.of_nat (Z.to_nat (M - nth (Z.to_nat s) bits 0))) by (apply Z.pow_pos_nonneg; lia).
    cbn [ht_max_bits ht_decode t']. split; [lia|]. rewrite (B6 base ltac:(lia)). cbn [h_sym]. lia. }
  pose proof (model_section_meets_O2 t' t' 3 [] lits) as MS. cbv zeta in MS.
  rewrite Epay in *. apply MS; [|exact Hdel|exact Hn|right; repeat split; reflexivity|exact Hpl].
  split; [exists ht0, src, used; exact Hb0|]. cbn [ht_weights t']. split; [exact Hw|exact Hl].
Qed.

Theorem treeless_section_meets_O2 ht0 src t used :
  huf_build_decoder ht0 src = ROk (t, used) -> Forall (fun w => 0 <= w) (ht_weights t) -> (length (ht_weights t) <= 255)%nat ->
  exists lw codes, enc_build_from_weights (ht_weights t ++ [lw]) = ROk codes /\
    forall lits,
      Forall (fun s => 0 <= s <= Z.of_nat (length (ht_weights t)) /\ 0 < nth (Z.to_nat s) (ht_weights t ++ [lw]) 0) lits ->
      16 <= Z.of_nat (length lits) <= 131072 ->
      let payload := huf4_bytes (code_fn codes) lits in
      zlen payload < zlen lits ->
      lit_ok t lits (huf_lit_header 3 (zlen lits) (zlen payload)) payload t.
Proof.
  intros Hb Hw Hl. destruct (treeless_section_meets_O2_strong ht0 src t used Hb Hw Hl) as (lw & codes & _ & Henc & Hall).
  exists lw, codes. split; [exact Henc|exact Hall].
Qed.
