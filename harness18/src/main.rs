//! zh18 -- the same driver built against each of the four feature sets {std, no_std} x {hash, no hash} of ruzstd.
//! It only uses `ruzstd::io::{Read, Write}`, which is std::io in std builds and the crate's own layer otherwise.
use ruzstd::io::{Read, Write};
use std::io::BufRead;

fn unhex(s: &str) -> Vec<u8> {
    if s == "-" {
        return Vec::new();
    }
    let b = s.as_bytes();
    (0..b.len() / 2).map(|i| u8::from_str_radix(std::str::from_utf8(&b[2 * i..2 * i + 2]).unwrap(), 16).unwrap()).collect()
}
fn hex(b: &[u8]) -> String {
    if b.is_empty() {
        return "-".to_string();
    }
    b.iter().map(|x| format!("{:02x}", x)).collect()
}

/// hands out at most `chunk` bytes per call (0 = everything)
struct Frag {
    data: Vec<u8>,
    pos: usize,
    chunk: usize,
}
impl Read for Frag {
    fn read(&mut self, buf: &mut [u8]) -> Result<usize, ruzstd::io::Error> {
        let mut n = buf.len().min(self.data.len() - self.pos);
        if self.chunk > 0 {
            n = n.min(self.chunk);
        }
        buf[..n].copy_from_slice(&self.data[self.pos..self.pos + n]);
        self.pos += n;
        Ok(n)
    }
}

fn run_line(line: &str) -> String {
    let w: Vec<&str> = line.split_whitespace().collect();
    match w[0] {
        // dec <chunk> <bufsize> <frame-hex> : StreamingDecoder read through the crate's Read trait
        "dec" => {
            let src = Frag { data: unhex(w[3]), pos: 0, chunk: w[1].parse().unwrap() };
            let bufsize: usize = w[2].parse().unwrap();
            let mut dec = match ruzstd::decoding::StreamingDecoder::new(src) {
                Ok(d) => d,
                Err(_) => return "err:init".to_string(),
            };
            let mut out = Vec::new();
            let mut buf = vec![0u8; bufsize.max(1)];
            loop {
                match dec.read(&mut buf) {
                    Ok(0) => break,
                    Ok(n) => out.extend_from_slice(&buf[..n]),
                    Err(_) => return format!("err:read {}", hex(&out)),
                }
            }
            format!("ok {}", hex(&out))
        }
        // decf <chunk> <frame-hex> : FrameDecoder init + decode_blocks(All) + collect, checksum fields
        "decf" => {
            let mut src = Frag { data: unhex(w[2]), pos: 0, chunk: w[1].parse().unwrap() };
            let mut dec = ruzstd::decoding::FrameDecoder::new();
            if dec.init(&mut src).is_err() {
                return "err:init".to_string();
            }
            if dec.decode_blocks(&mut src, ruzstd::decoding::BlockDecodingStrategy::All).is_err() {
                return "err:blocks".to_string();
            }
            let out = dec.collect().unwrap_or_default();
            format!("ok {} read={} left={}", hex(&out), dec.bytes_read_from_source(), src.data.len() - src.pos)
        }
        // enc <level> <chunk> <data-hex>
        "enc" => {
            let level = if w[1] == "0" { ruzstd::encoding::CompressionLevel::Uncompressed } else { ruzstd::encoding::CompressionLevel::Fastest };
            let src = Frag { data: unhex(w[3]), pos: 0, chunk: w[2].parse().unwrap() };
            format!("ok {}", hex(&ruzstd::encoding::compress_to_vec(src, level)))
        }
        // encm <level> <chunk> <data-hex>... : several frames through ONE FrameCompressor
        "encm" => {
            let level = if w[1] == "0" { ruzstd::encoding::CompressionLevel::Uncompressed } else { ruzstd::encoding::CompressionLevel::Fastest };
            let chunk: usize = w[2].parse().unwrap();
            let mut comp = ruzstd::encoding::FrameCompressor::new(level);
            let mut outs = Vec::new();
            for h in &w[3..] {
                comp.set_source(Frag { data: unhex(h), pos: 0, chunk });
                comp.set_drain(Vec::new());
                comp.compress();
                let out: Vec<u8> = comp.take_drain().unwrap();
                outs.push(hex(&out));
            }
            format!("ok {}", outs.join(" "))
        }
        // rx <need> <chunk> <data-hex> : read_exact
        "rx" => {
            let mut src = Frag { data: unhex(w[3]), pos: 0, chunk: w[2].parse().unwrap() };
            let mut buf = vec![0xEEu8; w[1].parse().unwrap()];
            let r = src.read_exact(&mut buf);
            format!("{} {} consumed={}", if r.is_ok() { "ok" } else { "err" }, hex(&buf), src.pos)
        }
        // take <limit> <chunk> <bufsize> <data-hex> : read through Take until it returns 0
        "take" => {
            let src = Frag { data: unhex(w[4]), pos: 0, chunk: w[2].parse().unwrap() };
            let mut t = src.take(w[1].parse().unwrap());
            let mut buf = vec![0u8; w[3].parse::<usize>().unwrap().max(1)];
            let mut out = Vec::new();
            let mut sizes = Vec::new();
            loop {
                let n = t.read(&mut buf).unwrap();
                if n == 0 || sizes.len() > 100000 {
                    break;
                }
                sizes.push(n.to_string());
                out.extend_from_slice(&buf[..n]);
            }
            format!("ok {} limit={} consumed={} calls={}", hex(&out), t.limit(), t.get_ref().pos, sizes.len())
        }
        // rte <prefix-hex> <chunk> <data-hex> : read_to_end into a vector that already holds the prefix
        "rte" => {
            let mut src = Frag { data: unhex(w[3]), pos: 0, chunk: w[2].parse().unwrap() };
            let mut out = unhex(w[1]);
            let r = src.read_to_end(&mut out);
            format!("{} {} consumed={}", if r.is_ok() { "ok" } else { "err" }, hex(&out), src.pos)
        }
        // wa <room> <data-hex> : write_all into a fixed slice
        "wa" => {
            let mut room = vec![0xEEu8; w[1].parse().unwrap()];
            let data = unhex(w[2]);
            let left;
            let r = {
                let mut target: &mut [u8] = &mut room;
                let r = target.write_all(&data);
                left = target.len();
                r
            };
            format!("{} {} left={}", if r.is_ok() { "ok" } else { "err" }, hex(&room), left)
        }
        _ => "bad".to_string(),
    }
}

fn main() {
    std::panic::set_hook(Box::new(|_| {}));
    let stdin = std::io::stdin();
    for line in stdin.lock().lines() {
        let line = line.unwrap();
        let line = line.trim().to_string();
        if line.is_empty() {
            continue;
        }
        let r = std::panic::catch_unwind(move || run_line(&line)).unwrap_or_else(|_| "panic".to_string());
        println!("{}", r);
    }
}
