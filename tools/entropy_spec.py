"""independent Python transcriptions of RFC 8878 4.1 (FSE table description) and 4.2.1 (Huffman tree description),
used as oracles by the C12 / C13 checks"""
from synth import build_dtable


def fse_write_description(probs, acc_log):
    """serialize a normalized distribution (RFC 4.1.1); returns bytes"""
    bits = []          # LSB-first bit list
    def put(v, n):
        for i in range(n):
            bits.append((v >> i) & 1)
    put(acc_log - 5, 4)
    remaining = (1 << acc_log) + 1
    i = 0
    n = len(probs)
    while remaining > 1 and i < n:
        p = probs[i]
        i += 1
        value = p + 1
        nb = remaining.bit_length()          # bits needed for values 0..remaining
        thr = (1 << nb) - 1 - remaining
        if value < thr:
            put(value, nb - 1)
        elif value > (1 << (nb - 1)) - 1:
            put(value + thr, nb)
        else:
            put(value, nb)
        remaining -= abs(p)
        if p == 0:
            while True:
                z = 0
                while i < n and probs[i] == 0 and z < 3:
                    z += 1
                    i += 1
                put(z, 2)
                if z < 3:
                    break
    while len(bits) % 8:
        bits.append(0)
    out = bytearray(len(bits) // 8)
    for k, b in enumerate(bits):
        if b:
            out[k // 8] |= 1 << (k % 8)
    return bytes(out)


def fse_read_description(data, max_log, max_symbol):
    """-> (acc_log, probs, bytes_used) or None"""
    pos = 0
    nbits = len(data) * 8
    def get(n):
        nonlocal pos
        if pos + n > nbits:
            raise EOFError
        v = 0
        for i in range(n):
            v |= ((data[(pos + i) // 8] >> ((pos + i) % 8)) & 1) << i
        pos += n
        return v
    try:
        al = 5 + get(4)
        if al > max_log:
            return None
        remaining = (1 << al) + 1
        probs = []
        while remaining > 1:
            nb = remaining.bit_length()
            thr = (1 << nb) - 1 - remaining
            v = get(nb - 1)
            if v < thr:
                value = v
            else:
                hi = get(1)
                v |= hi << (nb - 1)
                value = v - thr if v >= (1 << (nb - 1)) else v
            p = value - 1
            probs.append(p)
            remaining -= abs(p)
            if p == 0:
                while True:
                    z = get(2)
                    probs += [0] * z
                    if z < 3:
                        break
        if remaining != 1 or len(probs) > max_symbol + 1:
            return None
        return al, probs, (pos + 7) // 8
    except EOFError:
        return None


def huf_table_from_weights(weights):
    """weights of all symbols but the last (RFC 4.2.1.3) -> (max_bits, [(symbol, nbits) per table index]) or None"""
    if any(w > 11 for w in weights):
        return None
    s = sum((1 << (w - 1)) for w in weights if w > 0)
    if s == 0:
        return None
    m = s.bit_length()
    left = (1 << m) - s
    if left & (left - 1):
        return None
    if m > 11:
        return None
    ws = list(weights) + [left.bit_length()]
    order = sorted((w, i) for i, w in enumerate(ws) if w > 0)
    table = []
    for w, i in order:
        table += [(i & 255, m + 1 - w)] * (1 << (w - 1))
    return m, table
