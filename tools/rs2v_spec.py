"""What rs2v translates, from which file, and with which per-function conventions."""
import os, sys, re, json
import rs2v
from rs2v import TranslateError, find_item, translate_fn, const_value, token_hash

REPO = os.environ.get('VERIF_REPO', '/repo')
SRC = os.path.join(REPO, 'ruzstd', 'src')

ENUMS = {  # enum variants used as small integers (declaration order is checked against the source)
    'blocks/block.rs': ('BlockType', ['Raw', 'RLE', 'Compressed', 'Reserved']),
    'blocks/literals_section.rs': ('LiteralsSectionType', ['Raw', 'RLE', 'Compressed', 'Treeless']),
}

CONSTS = [
    ('common/mod.rs', ['MAGIC_NUM', 'MIN_WINDOW_SIZE', 'MAX_WINDOW_SIZE', 'MAX_BLOCK_SIZE']),
    ('decoding/frame_decoder.rs', ['DEFAULT_MAX_WINDOW_SIZE']),
    ('decoding/sequence_section_decoder.rs',
     ['LL_MAX_LOG', 'ML_MAX_LOG', 'OF_MAX_LOG',
      'LL_DEFAULT_ACC_LOG', 'ML_DEFAULT_ACC_LOG', 'OF_DEFAULT_ACC_LOG',
      'LITERALS_LENGTH_DEFAULT_DISTRIBUTION', 'MATCH_LENGTH_DEFAULT_DISTRIBUTION', 'OFFSET_DEFAULT_DISTRIBUTION']),
    ('blocks/sequence_section.rs', ['MAX_LITERAL_LENGTH_CODE', 'MAX_MATCH_LENGTH_CODE', 'MAX_OFFSET_CODE']),
    ('fse/fse_encoder.rs', ['ML_DIST', 'LL_DIST', 'OF_DIST']),
    ('fse/fse_decoder.rs', ['ACC_LOG_OFFSET']),
    ('huff0/huff0_decoder.rs', ['MAX_MAX_NUM_BITS']),
    ('encoding/match_generator.rs', ['MIN_MATCH_LEN']),
]


def hdr(name, impl=None):
    return r"^\s*(pub(\([a-z]+\))?\s+)?(unsafe\s+)?fn\s+%s\s*[(<]" % re.escape(name)


def h_write_bits(tr, e, rest, safe):
    args = e[3]
    if not (len(args) == 2 and args[1][0] == 'num' and args[1][1] == 8):
        raise TranslateError("%s: write_bits with a width other than 8" % tr.fn['name'])
    c, t, ch = tr.ex(args[0])
    ch = ch + ['(in_u 8 %s)' % c]
    code = 'let out := out ++ [%s] in\n%s' % (c, tr.stmts(rest, safe))
    return tr.guard(ch, code, safe)


def h_extend_le3(tr, e, rest, safe):
    # output.extend_from_slice(&X.to_le_bytes()[0..3])
    a = e[3][0]
    ok = (a[0] == 'index' and a[1][0] == 'mcall' and a[1][2] == 'to_le_bytes' and a[2][0] == 'range'
          and a[2][1] == ('num', 0, None) and a[2][2][0] == 'num' and not a[2][3])
    if not ok:
        raise TranslateError("%s: extend_from_slice argument not understood" % tr.fn['name'])
    n = a[2][2][1]
    c, t, ch = tr.ex(a[1][1])
    code = 'let out := out ++ le_bytes %d %s in\n%s' % (n, c, tr.stmts(rest, safe))
    return tr.guard(ch, code, safe)


DESC = {'0': ('d', 'u8')}
HB = {'header_buffer[0]': ('b0', 'u8'), 'header_buffer[1]': ('b1', 'u8'), 'header_buffer[2]': ('b2', 'u8')}
LS = {'ls_type': ('ls_type', 'u8'), 'regenerated_size': ('regenerated_size', 'u32'),
      'compressed_size': ('compressed_size', 'Option<u32>'), 'num_streams': ('num_streams', 'Option<u8>')}

FUNCS = [
    # (file, rust fn name, spec)
    ('decoding/sequence_section_decoder.rs', 'lookup_ll_code', dict(res=True, coq_ret='res (Z * Z)')),
    ('decoding/sequence_section_decoder.rs', 'lookup_ml_code', dict(res=True, coq_ret='res (Z * Z)')),
    ('encoding/blocks/compressed.rs', 'encode_literal_length', dict(res=True, coq_ret='res (Z * Z * Z)')),
    ('encoding/blocks/compressed.rs', 'encode_match_len', dict(res=True, coq_ret='res (Z * Z * Z)')),
    ('encoding/blocks/compressed.rs', 'encode_offset', dict(res=False, coq_ret='Z * Z * Z')),
    ('encoding/blocks/compressed.rs', 'encode_seqnum',
     dict(res=True, coq_ret='res (unit * list Z)', outs=['out'], drop_params=['writer'], extra_params=[('out', '[u8]')],
          stmt_calls={'writer.write_bits': h_write_bits})),
    ('decoding/sequence_execution.rs', 'do_offset_history', dict(res=False, coq_ret='Z * list Z', outs=['scratch'])),
    ('encoding/util.rs', 'find_min_size', dict(res=False, coq_ret='Z')),
    ('decoding/frame.rs', 'frame_content_size_flag', dict(res=False, coq_ret='Z', self_fields=DESC)),
    ('decoding/frame.rs', 'single_segment_flag', dict(res=False, coq_ret='bool', self_fields=DESC)),
    ('decoding/frame.rs', 'content_checksum_flag', dict(res=False, coq_ret='bool', self_fields=DESC)),
    ('decoding/frame.rs', 'dict_id_flag', dict(res=False, coq_ret='Z', self_fields=DESC)),
    ('decoding/frame.rs', 'frame_content_size_bytes',
     dict(res=True, coq_ret='res Z', self_fields=DESC,
          plain_calls={'frame_content_size_flag': ('frame_content_size_flag', 'u8', ['d']),
                       'single_segment_flag': ('single_segment_flag', 'bool', ['d'])})),
    ('decoding/frame.rs', 'dictionary_id_bytes',
     dict(res=True, coq_ret='res Z', self_fields=DESC,
          plain_calls={'dict_id_flag': ('dict_id_flag', 'u8', ['d'])})),
    ('decoding/frame.rs', 'window_size',
     dict(res=True, coq_ret='res Z',
          self_fields={'window_descriptor': ('window_descriptor', 'u8'), 'descriptor.0': ('d', 'u8'),
                       'frame_content_size': ('fcs', 'u64')},
          let_types={'window_base': 'u64'},
          plain_calls={'descriptor.single_segment_flag': ('single_segment_flag', 'bool', ['d']),
                       'frame_content_size': ('fcs', 'u64', [])})),
    ('decoding/block_decoder.rs', 'is_last', dict(res=False, coq_ret='bool', self_fields=HB, self_params=['b0'])),
    ('decoding/block_decoder.rs', 'block_type', dict(res=True, coq_ret='res Z', self_fields=HB, self_params=['b0'])),
    ('decoding/block_decoder.rs', 'block_content_size_unchecked', dict(res=False, coq_ret='Z', self_fields=HB)),
    ('decoding/block_decoder.rs', 'block_content_size',
     dict(res=True, coq_ret='res Z', self_fields=HB,
          plain_calls={'block_content_size_unchecked': ('block_content_size_unchecked', 'u32', ['b0', 'b1', 'b2'])})),
    ('encoding/block_header.rs', 'serialize',
     dict(coq_name='block_header_serialize', res=True, coq_ret='res (unit * list Z)', outs=['out'],
          drop_params=['output'], extra_params=[('out', '[u8]')],
          self_fields={'block_type': ('block_type', 'u8'), 'block_size': ('block_size', 'u32'),
                       'last_block': ('last_block', 'bool')},
          let_types={'encoded_block_type': 'u32'},
          stmt_calls={'output.extend_from_slice': h_extend_le3})),
    ('blocks/literals_section.rs', 'section_type',
     dict(coq_name='literals_section_type', res=True, coq_ret='res Z')),
    ('blocks/literals_section.rs', 'header_bytes_needed',
     dict(res=True, coq_ret='res Z', self_fields={}, let_types={},
          res_calls={'section_type': ('literals_section_type', 'u8', [])})),
    ('blocks/sequence_section.rs', 'parse_from_header',
     dict(coq_name='sequences_header_parse', res=True, coq_ret='res (Z * Z * option Z)',
          outs=['num_sequences', 'modes'],
          self_fields={'num_sequences': ('num_sequences', 'u32'), 'modes': ('modes', 'Option<u8>')},
          let_types={'bytes_read': 'u8'}, identity_ctors=['CompressionModes'])),
    ('decoding/frame_decoder.rs', 'check_window_size', dict(res=True, coq_ret='res unit')),
    ('decoding/frame_decoder.rs', 'set_max_window_size',
     dict(res=False, coq_ret='unit * Z', outs=['self_max_window_size'],
          self_fields={'max_window_size': ('self_max_window_size', 'u64')}, self_params=[])),
]


def main(argv):
    out_path = argv[0] if argv else '/verif/coq/gen/Generated.v'
    env = {'consts': {}, 'has_safe': {}}
    lines = ['(* GENERATED by tools/rs2v.py from %s -- do not edit. *)' % SRC,
             'Require Import Zrs.lib.RsPrelude.', 'Open Scope Z_scope.', '']
    hashes = {}
    try:
        for rel, (ename, variants) in ENUMS.items():
            src = open(os.path.join(SRC, rel)).read()
            item = find_item(src, r"^\s*pub enum %s\b" % ename)
            if item is None:
                raise TranslateError("enum %s not found" % ename)
            body = rs2v.strip_comments(item)
            body = re.sub(r"#\[[^\]]*\]", "", body)
            found = re.findall(r"\b([A-Z][A-Za-z]*)\s*,", body[body.index('{'):])
            if found != variants:
                raise TranslateError("enum %s: variants %s, expected %s" % (ename, found, variants))
            for i, v in enumerate(variants):
                env['consts'][v] = (str(i), 'u8')
        for rel, names in CONSTS:
            src = open(os.path.join(SRC, rel)).read()
            for n in names:
                cty, code, rty = const_value(src, n, env)
                lines.append('Definition %s : %s := %s.' % (n, cty, code))
                env['consts'][n] = (n, rty if cty == 'Z' else rty)
        lines.append('')
        for rel, fname, spec in FUNCS:
            src = open(os.path.join(SRC, rel)).read()
            item = find_item(src, hdr(fname))
            if item is None:
                raise TranslateError("fn %s not found in %s" % (fname, rel))
            hashes[spec.get('coq_name', fname)] = token_hash(item)
            lines.append('(* %s :: %s *)' % (rel, fname))
            lines.append(translate_fn(item, spec, env))
    except TranslateError as ex:
        sys.stderr.write("rs2v: TRANSLATION FAILED: %s\n" % ex)
        return 2
    text = '\n'.join(lines) + '\n'
    old = open(out_path).read() if os.path.exists(out_path) else None
    if old != text:
        open(out_path, 'w').write(text)
    json.dump(hashes, open(os.path.splitext(out_path)[0] + '.hashes.json', 'w'), indent=1, sort_keys=True)
    print("rs2v: %d consts, %d functions -> %s%s" % (sum(len(n) for _, n in CONSTS), len(FUNCS), out_path,
                                                   '' if old != text else ' (unchanged)'))
    return 0
