"""independent XXH64 (seed 0) -- used to check the decoder's calculated checksum against the bytes the model says
were hashed, and the compressor's trailer against the input."""
M = (1 << 64) - 1
P1, P2, P3, P4, P5 = 11400714785074694791, 14029467366897019727, 1609587929392839161, 9650029242287828579, 2870177450012600261

def rotl(x, r):
    return ((x << r) | (x >> (64 - r))) & M

def rnd(acc, inp):
    acc = (acc + inp * P2) & M
    return (rotl(acc, 31) * P1) & M

def merge(acc, val):
    val = rnd(0, val)
    acc ^= val
    return (acc * P1 + P4) & M

def xxh64(data, seed=0):
    data = bytes(data)
    n = len(data)
    if n > 4096 and seed == 0:
        # the pure-Python loop manages ~1 MB/s: big inputs go through the harness's own XXH64 (harness/src/xxh.rs,
        # also independent of the crate under test); the two are cross-checked on every call below 64 KiB
        v = _via_harness(data)
        if v is not None:
            if n <= 65536:
                assert v == _xxh64_py(data, 0), 'XXH64 implementations disagree'
            return v
    return _xxh64_py(data, seed)


def _via_harness(data):
    import subprocess, os
    exe = os.path.join(os.path.dirname(os.path.dirname(os.path.abspath(__file__))), '_build', 'cargo', 'release', 'zh')
    if not os.path.exists(exe):
        return None
    try:
        p = subprocess.run([exe, 'xxh'], input=(data.hex() + '\n').encode(), stdout=subprocess.PIPE, timeout=120)
        return int(p.stdout.decode().strip())
    except Exception:
        return None


def _xxh64_py(data, seed=0):
    data = bytes(data)
    n = len(data)
    p = 0
    if n >= 32:
        v1, v2, v3, v4 = (seed + P1 + P2) & M, (seed + P2) & M, seed, (seed - P1) & M
        while p + 32 <= n:
            v1 = rnd(v1, int.from_bytes(data[p:p + 8], 'little'))
            v2 = rnd(v2, int.from_bytes(data[p + 8:p + 16], 'little'))
            v3 = rnd(v3, int.from_bytes(data[p + 16:p + 24], 'little'))
            v4 = rnd(v4, int.from_bytes(data[p + 24:p + 32], 'little'))
            p += 32
        h = (rotl(v1, 1) + rotl(v2, 7) + rotl(v3, 12) + rotl(v4, 18)) & M
        h = merge(h, v1); h = merge(h, v2); h = merge(h, v3); h = merge(h, v4)
    else:
        h = (seed + P5) & M
    h = (h + n) & M
    while p + 8 <= n:
        k = rnd(0, int.from_bytes(data[p:p + 8], 'little'))
        h ^= k
        h = (rotl(h, 27) * P1 + P4) & M
        p += 8
    if p + 4 <= n:
        h ^= (int.from_bytes(data[p:p + 4], 'little') * P1) & M
        h = (rotl(h, 23) * P2 + P3) & M
        p += 4
    while p < n:
        h ^= (data[p] * P5) & M
        h = (rotl(h, 11) * P1) & M
        p += 1
    h ^= h >> 33
    h = (h * P2) & M
    h ^= h >> 29
    h = (h * P3) & M
    h ^= h >> 32
    return h

if __name__ == '__main__':
    assert xxh64(b'') == 0xEF46DB3751D8E999
    assert xxh64(b'a') == 0xD24EC4F1A98C6E5B
    print('ok')
