"""Shared machinery of the checks: paths, PRNG, builds (Coq / harness), Coq-side evaluation of cases,
evidence and verdict reporting, known findings."""
import os, sys, json, subprocess, time, re, fcntl, hashlib, shutil

VERIF = os.path.dirname(os.path.dirname(os.path.abspath(__file__)))
REPO = os.environ.get('VERIF_REPO', '/repo')
COQ = os.path.join(VERIF, 'coq')
BUILD = os.path.join(VERIF, '_build')
EVID = os.environ.get('VERIF_EVIDENCE_DIR') or os.path.join(VERIF, 'evidence')
REPLAY = os.path.join(EVID, 'replay')
HARNESS = os.path.join(VERIF, 'harness')
CARGO_TARGET = os.path.join(BUILD, 'cargo')

TRUSTED_BASE = [
    "Coq 8.16.1 kernel and vm_compute (no native_compute); full .vo builds only",
    "axioms: none (Print Assumptions of every property theorem must say 'Closed under the global context')",
    "tools/rs2v.py (Rust subset -> Gallina translator) and tools/c2v.py (libzstd C arrays -> Gallina)",
    "hand-written models under coq/model, tied to the code only by the correspondence runs of this check",
    "extraction: Coq Extraction with ExtrOcamlBasic only; OCaml 4.13.1; ocaml/driver.ml (parsing/printing)",
    "the Rust harness /verif/harness and the cfg(ruzstd_verif) hooks listed in MANIFEST.hooks (pass-through only)",
    "libzstd 1.5.7 (zstd crate) as reference decoder/encoder oracle in the harness",
    "not modelled: allocator/OOM, real pointer provenance, std::io/fs, clap, process exit codes, cfg selection",
]


class SplitMix64:
    def __init__(self, seed):
        self.s = seed & 0xFFFFFFFFFFFFFFFF

    def next(self):
        self.s = (self.s + 0x9E3779B97F4A7C15) & 0xFFFFFFFFFFFFFFFF
        z = self.s
        z = ((z ^ (z >> 30)) * 0xBF58476D1CE4E5B9) & 0xFFFFFFFFFFFFFFFF
        z = ((z ^ (z >> 27)) * 0x94D049BB133111EB) & 0xFFFFFFFFFFFFFFFF
        return z ^ (z >> 31)

    def below(self, n):
        return self.next() % n if n > 0 else 0

    def range(self, lo, hi):
        return lo + self.below(hi - lo + 1)

    def choice(self, xs):
        return xs[self.below(len(xs))]

    def chance(self, num, den):
        return self.below(den) < num

    def bytes(self, n):
        out = bytearray()
        while len(out) < n:
            out += self.next().to_bytes(8, 'little')
        return bytes(out[:n])

    def fork(self, tag):
        h = hashlib.sha256(("%d/%s" % (self.s, tag)).encode()).digest()
        return SplitMix64(int.from_bytes(h[:8], 'little'))


def seed():
    try:
        return int(os.environ.get('VERIF_SEED', '20260923'))
    except ValueError:
        return 20260923


class Lock:
    def __init__(self, name):
        os.makedirs(BUILD, exist_ok=True)
        self.path = os.path.join(BUILD, name + '.lock')

    def __enter__(self):
        self.f = open(self.path, 'w')
        fcntl.flock(self.f, fcntl.LOCK_EX)

    def __exit__(self, *a):
        fcntl.flock(self.f, fcntl.LOCK_UN)
        self.f.close()


def run(cmd, cwd=None, timeout=1800, env=None, input=None):
    e = dict(os.environ)
    e.update({'CARGO_NET_OFFLINE': 'true'})
    if env:
        e.update(env)
    t0 = time.time()
    try:
        p = subprocess.run(cmd, cwd=cwd, env=e, input=input, stdout=subprocess.PIPE, stderr=subprocess.PIPE,
                           timeout=timeout, shell=isinstance(cmd, str))
        return p.returncode, p.stdout.decode('utf-8', 'replace'), p.stderr.decode('utf-8', 'replace'), time.time() - t0
    except subprocess.TimeoutExpired as ex:
        return 124, (ex.stdout or b'').decode('utf-8', 'replace'), 'TIMEOUT after %ss' % timeout, time.time() - t0


# --------------------------------------------------------------------------- Coq

FORBIDDEN = re.compile(r"\b(Admitted|admit|Axiom|Axioms|Parameter|Parameters|Conjecture|Conjectures|"
                       r"Admit Obligations|bypass_check|Unset Guard Checking|Unset Positivity Checking|"
                       r"Unset Universe Checking)\b|type-in-type|impredicative-set")


def gate():
    """refuse Admitted / Axiom / ... anywhere in the development (comments are stripped first)"""
    bad = []
    for root, _, files in os.walk(COQ):
        for f in files:
            if not f.endswith('.v'):
                continue
            p = os.path.join(root, f)
            txt = open(p).read()
            txt = strip_coq_comments(txt)
            for m in FORBIDDEN.finditer(txt):
                bad.append("%s: %s" % (os.path.relpath(p, VERIF), m.group(0)))
            if re.search(r"^\s*(Variable|Variables|Hypothesis|Hypotheses)\b", txt, re.M):
                # allowed only inside a Section: check crude nesting
                depth = 0
                for line in txt.split('\n'):
                    if re.match(r"\s*Section\b", line):
                        depth += 1
                    elif re.match(r"\s*End\b", line) and depth > 0:
                        depth -= 1
                    elif re.match(r"\s*(Variable|Variables|Hypothesis|Hypotheses)\b", line) and depth == 0:
                        bad.append("%s: top-level %s" % (os.path.relpath(p, VERIF), line.strip()))
    for f in ('_CoqProject',):
        if FORBIDDEN.search(open(os.path.join(COQ, f)).read()):
            bad.append('_CoqProject: forbidden flag')
    return bad


def strip_coq_comments(txt):
    out = []
    depth = 0
    i = 0
    in_str = False
    while i < len(txt):
        if not in_str and txt.startswith('(*', i):
            depth += 1
            i += 2
            continue
        if not in_str and depth and txt.startswith('*)', i):
            depth -= 1
            i += 2
            continue
        if depth == 0:
            if txt[i] == '"':
                in_str = not in_str
            out.append(txt[i] if not in_str or txt[i] == '"' else ' ')
        i += 1
    return ''.join(out)


def regen():
    """Tie 1: regenerate Generated.v (and RefTables.v) from the working tree.  Returns (ok, message)."""
    with Lock('coq'):
        rc, out, err, _ = run([sys.executable, os.path.join(VERIF, 'tools', 'c2v.py'),
                               os.path.join(COQ, 'gen', 'RefTables.v')])
        if rc != 0:
            return False, 'c2v failed: ' + err.strip()
        rc, out, err, _ = run([sys.executable, os.path.join(VERIF, 'tools', 'rs2v.py'),
                               os.path.join(COQ, 'gen', 'Generated.v')], env={'VERIF_REPO': REPO})
        if rc != 0:
            return False, (err.strip() or out.strip())
        return True, out.strip()


def coq_makefile():
    mk = os.path.join(COQ, 'Makefile.coq')
    cp = os.path.join(COQ, '_CoqProject')
    if not os.path.exists(mk) or os.path.getmtime(mk) < os.path.getmtime(cp):
        rc, out, err, _ = run(['coq_makefile', '-f', '_CoqProject', '-o', 'Makefile.coq'], cwd=COQ)
        if rc != 0:
            raise RuntimeError('coq_makefile failed: ' + err)


def coq_make(targets, timeout=2400):
    """full .vo build of the given targets (paths relative to coq/).  Returns (ok, log, seconds)."""
    with Lock('coq'):
        coq_makefile()
        # force the Print Assumptions output of property files to be re-emitted: it is part of the evidence
        rc, out, err, dt = run(['make', '-f', 'Makefile.coq', '-j16'] + targets, cwd=COQ, timeout=timeout)
        return rc == 0, out + err, dt


def print_assumptions(prop_file):
    """re-run coqc on a props file (cheap: dependencies are compiled) and collect Print Assumptions output"""
    with Lock('coq'):
        rc, out, err, dt = run(['coqc', '-Q', '.', 'Zrs', '-w', '-all', prop_file], cwd=COQ, timeout=900)
    closed = out.count('Closed under the global context')
    axioms = []
    if 'Axioms:' in out:
        for blk in out.split('Axioms:')[1:]:
            for line in blk.split('\n')[1:]:
                if line.strip() == '' or line.startswith('Closed'):
                    break
                if not line.startswith(' ') or ':' in line:
                    nm = line.split(':')[0].strip()
                    if nm:
                        axioms.append(nm)
    return rc == 0, closed, sorted(set(axioms)), out + err


def count_theorems(prop_file):
    txt = strip_coq_comments(open(os.path.join(COQ, prop_file)).read())
    thms = re.findall(r"^\s*Theorem\s+(\w+)", txt, re.M)
    pa = re.findall(r"^\s*Print Assumptions\s+(\w+)", txt, re.M)
    return thms, pa


def coq_eval(name, body, timeout=900):
    """compile a generated cases file under _build/cases and return coqc's stdout"""
    d = os.path.join(BUILD, 'cases')
    os.makedirs(d, exist_ok=True)
    p = os.path.join(d, name + '.v')
    open(p, 'w').write(body)
    rc, out, err, dt = run(['coqc', '-noglob', '-Q', COQ, 'Zrs', '-Q', d, 'Cases', '-w', '-all', p], cwd=d, timeout=timeout)
    for ext in ('.vo', '.vok', '.vos', '.glob'):
        try:
            os.remove(os.path.join(d, name + ext))
        except OSError:
            pass
    return rc, out, err, dt


# --------------------------------------------------------------------------- harness

def build_harness(profiles=('debug', 'release')):
    with Lock('cargo'):
        lock_src = os.path.join(REPO, 'Cargo.lock')
        lock_dst = os.path.join(HARNESS, 'Cargo.lock')
        if not os.path.exists(lock_dst) and os.path.exists(lock_src):
            shutil.copy(lock_src, lock_dst)
        logs = []
        for prof in profiles:
            cmd = ['cargo', 'build', '--offline'] + (['--release'] if prof == 'release' else [])
            rc, out, err, dt = run(cmd, cwd=HARNESS, timeout=1800)
            logs.append(err[-3000:])
            if rc != 0:
                return False, '\n'.join(logs)
        return True, '\n'.join(logs)


def zh(sub, lines, profile='release', timeout=900):
    exe = os.path.join(CARGO_TARGET, profile, 'zh')
    data = ('\n'.join(lines) + '\n').encode()
    rc, out, err, dt = run([exe, sub], input=data, timeout=timeout)
    res = out.split('\n')
    if res and res[-1] == '':
        res.pop()
    return rc, res, err


# --------------------------------------------------------------------------- verdicts / evidence

def known_findings():
    p = os.path.join(VERIF, 'known_findings.json')
    if not os.path.exists(p):
        return []
    return json.load(open(p)).get('findings', [])


class Check:
    def __init__(self, pid, tier):
        self.pid = pid
        self.tier = tier
        self.seed = seed()
        self.t0 = time.time()
        self.violations = []     # (what, replay dict)
        self.known = []
        self.broken = []         # names of theorems / ties that no longer check
        self.cov = {'obligations': 0, 'discharged': 0, 'checker_cmd': '', 'trusted_base': list(TRUSTED_BASE),
                    'evaluations': 0, 'distinct_nontrivial': 0, 'rule': '', 'samples': [], 'disagreements_checked': 0,
                    'components': {}}
        self.assumptions = []
        self.level = 'proof'
        self.notes = []
        # replay files of earlier runs of this property are stale
        try:
            for f in os.listdir(REPLAY):
                if f.startswith(pid + '-'):
                    os.remove(os.path.join(REPLAY, f))
        except OSError:
            pass

    def log(self, msg):
        print('[%s] %s' % (self.pid, msg), flush=True)

    def violation(self, what, replay):
        """a concrete failing input on the implementation"""
        for k in known_findings():
            if k.get('property') == self.pid and k.get('status') == 'open' and matches_known(k, replay):
                self.known.append((k, what))
                return
        self.violations.append((what, replay))

    def tie_broken(self, name, detail):
        self.broken.append((name, detail))

    def add_samples(self, comp, n, distinct, samples, rule=None):
        self.cov['evaluations'] += n
        self.cov['distinct_nontrivial'] += distinct
        self.cov['components'][comp] = {'evaluations': n, 'distinct_nontrivial': distinct}
        for s in samples[:3]:
            self.cov['samples'].append({'component': comp, 'case': s})
        if rule:
            self.cov['rule'] = (self.cov['rule'] + ' | ' if self.cov['rule'] else '') + comp + ': ' + rule

    def prove(self, prop_file, extra_targets=()):
        """build the property file (full .vo) and collect Print Assumptions"""
        bad = gate()
        thms, pa = count_theorems(prop_file)
        self.cov['obligations'] += len(thms)
        self.cov['checker_cmd'] = 'make -f Makefile.coq %s  (coqc 8.16.1, full .vo) + coqc %s for Print Assumptions' % (
            prop_file + 'o', prop_file)
        if bad:
            self.tie_broken('gate', 'forbidden construct: ' + '; '.join(bad))
            return False
        missing = [t for t in thms if t not in pa]
        if missing:
            self.tie_broken('print-assumptions', 'no Print Assumptions for: ' + ', '.join(missing))
        ok, log, dt = coq_make([prop_file + 'o'] + list(extra_targets))
        self.cov['coq_build_s'] = round(dt, 1)
        if not ok:
            m = re.search(r'File "([^"]+)", line (\d+)[^\n]*\n(Error:.*?)(?:\n\n|\Z)', log, re.S)
            where = ('%s:%s %s' % (m.group(1), m.group(2), m.group(3).replace('\n', ' ')[:300])) if m else log[-500:]
            lemma = guess_lemma(m.group(1), int(m.group(2))) if m else None
            self.tie_broken('proof:' + (lemma or prop_file), where)
            return False
        ok2, closed, axioms, out = print_assumptions(prop_file)
        self.cov['print_assumptions'] = {'closed': closed, 'axioms': axioms}
        if not ok2:
            self.tie_broken('proof:' + prop_file, 'coqc on the property file failed: ' + out[-400:])
            return False
        if axioms or closed != len(pa):
            self.tie_broken('axioms', 'Print Assumptions reports axioms %s (closed %d of %d)' % (axioms, closed, len(pa)))
            return False
        self.cov['discharged'] += len(thms)
        self.cov['theorems'] = self.cov.get('theorems', []) + thms
        return True

    def finish(self):
        os.makedirs(REPLAY, exist_ok=True)
        wall = time.time() - self.t0
        lines = []
        nviol = 0
        for k, what in self.known:
            lines.append('KNOWN-FINDING: property=%s %s' % (self.pid, k.get('what', what)))
        for i, (what, replay) in enumerate(self.violations):
            rp = os.path.join(REPLAY, '%s-%d-%d.json' % (self.pid, self.seed, i))
            json.dump({'property': self.pid, 'what': what, 'replay': replay, 'seed': self.seed}, open(rp, 'w'), indent=1)
            lines.append('VIOLATION property=%s replay=%s' % (self.pid, rp))
            nviol += 1
        if self.broken and not self.violations:
            rp = os.path.join(REPLAY, '%s-%d-broken.json' % (self.pid, self.seed))
            json.dump({'property': self.pid, 'no_longer_checks': [{'name': n, 'detail': d} for n, d in self.broken],
                       'seed': self.seed,
                       'note': 'a proof obligation, the translator or the correspondence no longer checks; the search '
                               'for a concrete failing input on the implementation found none'}, open(rp, 'w'), indent=1)
            lines.append('VIOLATION property=%s replay=%s no-failing-input-found' % (self.pid, rp))
            nviol += 1
        elif self.broken:
            self.notes.append('also no longer checking: ' + '; '.join(n for n, _ in self.broken))
        cov = self.cov
        if not cov['samples']:
            cov['samples'] = [{'note': 'no correspondence cases in this run'}]
        cov['programs'] = cov['evaluations']
        cov['broken'] = [{'name': n, 'detail': d} for n, d in self.broken]
        cov['notes'] = self.notes
        ev = {'property_id': self.pid, 'tier': self.tier, 'seed': self.seed, 'level': self.level, 'coverage': cov,
              'assumptions': self.assumptions or TRUSTED_BASE, 'wall_s': round(wall, 2), 'violations': nviol,
              'known_findings_reported': [k.get('id') for k, _ in self.known]}
        os.makedirs(EVID, exist_ok=True)
        json.dump(ev, open(os.path.join(EVID, self.pid + '.json'), 'w'), indent=1)
        for l in lines:
            print(l, flush=True)
        print('[%s] %s tier done in %.1fs: obligations %d/%d, correspondence cases %d, violations %d' % (
            self.pid, self.tier, wall, cov['discharged'], cov['obligations'], cov['evaluations'], nviol), flush=True)
        return 1 if nviol else 0


def guess_lemma(path, line):
    try:
        p = path if os.path.isabs(path) else os.path.join(COQ, path)
        src = open(p).read().split('\n')
        for i in range(min(line, len(src)) - 1, -1, -1):
            m = re.match(r"\s*(Lemma|Theorem|Example|Corollary|Fact|Remark|Definition)\s+(\w+)", src[i])
            if m:
                return m.group(2)
    except OSError:
        pass
    return None


def matches_known(k, replay):
    """a known finding matches a replay only on its specific class (never on the property id alone)"""
    cls = k.get('match', {})
    if not cls:
        return False
    for key, val in cls.items():
        if replay.get(key) != val:
            return False
    return True


# --------------------------------------------------------------------------- model-vs-implementation batches

def parse_canon(line, kind='ints'):
    """harness result line -> (class, [ints])"""
    w = line.split()
    if not w:
        return (9, [])
    if w[0] == 'ok':
        vals = []
        for x in w[1:]:
            if kind == 'hex' or (re.fullmatch(r"[0-9a-f]+", x) and not x.isdigit() and kind == 'mixed'):
                vals += list(bytes.fromhex(x)) if x != '-' else []
            elif x == '-':
                pass
            elif x == 'werr':
                vals.append(-1)
            else:
                vals.append(int(x))
        return (0, vals)
    if w[0] == 'err':
        return (1, [])
    if w[0] == 'panic':
        return (2, [])
    if w[0] == 'skip':
        return (3, [int(x) for x in w[1:]])
    return (9, [])


def zl(v):
    return str(v) if v >= 0 else '(%d)' % v


def coq_list(xs):
    return '[' + '; '.join(zl(x) for x in xs) + ']'


def model_vs_impl(chk, comp, glue, inputs, rust_results, shard=2000, imports='Zrs.model.GenGlue'):
    """evaluate `glue` (a Coq function list Z -> canon) on every input inside Coq and compare with the canonical
    results of the implementation.  Returns list of (input, rust, model) disagreements."""
    dis = []
    jobs = []
    for s in range(0, len(inputs), shard):
        body = ['Require Import Zrs.lib.RsPrelude %s.' % imports, 'Open Scope Z_scope.',
                'Definition cases : list (list Z * (Z * list Z)) := [']
        rows = []
        for x, (c, v) in zip(inputs[s:s + shard], rust_results[s:s + shard]):
            rows.append('(%s, (%d, %s))' % (coq_list(x), c, coq_list(v)))
        body.append(';\n'.join(rows))
        body.append('].')
        body.append('Eval vm_compute in (mismatches %s cases).' % glue)
        jobs.append((s, '\n'.join(body)))
    import concurrent.futures
    def work(job):
        s, body = job
        return s, coq_eval('%s_%s_%d' % (chk.pid, comp, s), body)
    with concurrent.futures.ThreadPoolExecutor(max_workers=8) as ex:
        for s, (rc, out, err, dt) in ex.map(work, jobs):
            if rc != 0:
                chk.tie_broken('correspondence:' + comp, 'coqc failed on the cases file: ' + (err or out)[-400:])
                continue
            flat = ' '.join(out.split())
            m = re.search(r"= (\[.*\]) : list \(Z \* canon\)", flat)
            if not m:
                chk.tie_broken('correspondence:' + comp, 'unparseable coqc output: ' + flat[:200])
                continue
            txt = m.group(1)
            if txt == '[]':
                continue
            for mm in re.finditer(r"\((-?\d+), \((-?\d+), \[([^\]]*)\]\)\)", txt.replace('%Z', '')):
                idx = int(mm.group(1))
                mc = (int(mm.group(2)), [int(t) for t in mm.group(3).replace('(', '').replace(')', '').split(';') if t.strip()])
                dis.append((inputs[s + idx], rust_results[s + idx], mc))
    return dis


# --------------------------------------------------------------------------- extracted model (OCaml)

OCAML_DIR = os.path.join(BUILD, 'ocaml')


def build_ocaml():
    """extract the executable models and compile the driver; returns (ok, log).  Cached on the source texts."""
    with Lock('ocaml'):
        srcs = sorted(os.path.join(COQ, 'model', f) for f in os.listdir(os.path.join(COQ, 'model')) if f.endswith('.v'))
        srcs += [os.path.join(COQ, 'extract', 'Extract.v'), os.path.join(VERIF, 'ocaml', 'driver.ml'),
                 os.path.join(COQ, 'gen', 'Generated.v'), os.path.join(COQ, 'lib', 'RsPrelude.v')]
        h = hashlib.sha256()
        for p in srcs:
            h.update(open(p, 'rb').read())
        stamp = os.path.join(OCAML_DIR, 'stamp')
        exe = os.path.join(OCAML_DIR, 'driver')
        if os.path.exists(exe) and os.path.exists(stamp) and open(stamp).read() == h.hexdigest():
            return True, 'cached'
        os.makedirs(OCAML_DIR, exist_ok=True)
        ok, log, dt = coq_make(['model/FrameDec.vo', 'model/Matcher.vo', 'model/FrameEnc.vo', 'model/IoNoStd.vo', 'model/BitRev64.vo', 'model/SeqEnc.vo', 'model/FseEnc.vo', 'model/SeqSection.vo', 'model/LitEnc.vo', 'model/BlockEnc.vo', 'model/FseNorm.vo', 'model/WeightEnc.vo', 'model/HufCounts.vo', 'model/LitComp.vo'])
        if not ok:
            return False, log[-1500:]
        rc, out, err, dt = run(['coqc', '-Q', COQ, 'Zrs', os.path.join(COQ, 'extract', 'Extract.v')], cwd=OCAML_DIR, timeout=600)
        for junk in ('Extract.vo', 'Extract.glob', 'Extract.vok', 'Extract.vos', '.Extract.aux'):
            try:
                os.remove(os.path.join(COQ, 'extract', junk))
            except OSError:
                pass
        if rc != 0:
            return False, (out + err)[-1500:]
        shutil.copy(os.path.join(VERIF, 'ocaml', 'driver.ml'), os.path.join(OCAML_DIR, 'driver.ml'))
        rc, out, err, dt = run(['ocamlfind', 'ocamlopt', '-O3', '-w', '-a', 'model.mli', 'model.ml', 'driver.ml', '-o', 'driver'],
                               cwd=OCAML_DIR, timeout=600)
        if rc != 0:
            return False, (out + err)[-1500:]
        open(stamp, 'w').write(h.hexdigest())
        return True, 'built'


def model_run(sub, lines, timeout=1800, jobs=12, per_job=4):
    """run the extracted model on the lines (sharded over processes); returns list of result lines"""
    exe = os.path.join(OCAML_DIR, 'driver')
    if not lines:
        return []
    import concurrent.futures
    n = max(1, min(jobs, len(lines) // per_job or 1))
    chunks = [lines[i::n] for i in range(n)]
    def work(ch):
        data = ('\n'.join(ch) + '\n').encode()
        rc, out, err, dt = run(['bash', '-c', 'ulimit -s unlimited; exec "%s" %s' % (exe, sub)], input=data, timeout=timeout)
        res = out.split('\n')
        if res and res[-1] == '':
            res.pop()
        return res
    t0 = time.time()
    with concurrent.futures.ThreadPoolExecutor(max_workers=n) as ex:
        outs = list(ex.map(work, chunks))
    if os.environ.get('VERIF_TIMING'):
        sys.stderr.write('[timing] model %s: %d lines, %d jobs, %.1fs\n' % (sub, len(lines), n, time.time() - t0))
    res = [None] * len(lines)
    for k, o in enumerate(outs):
        idxs = list(range(k, len(lines), n))
        for j, ix in enumerate(idxs):
            res[ix] = o[j] if j < len(o) else 'missing'
    return res


def zh_par(sub, lines, profile='release', timeout=1800, jobs=12):
    if not lines:
        return []
    import concurrent.futures
    n = max(1, min(jobs, len(lines) // 4 or 1))
    chunks = [lines[i::n] for i in range(n)]
    def work(ch):
        rc, res, err = zh(sub, ch, profile, timeout)
        return res
    with concurrent.futures.ThreadPoolExecutor(max_workers=n) as ex:
        outs = list(ex.map(work, chunks))
    res = [None] * len(lines)
    for k, o in enumerate(outs):
        idxs = list(range(k, len(lines), n))
        for j, ix in enumerate(idxs):
            res[ix] = o[j] if j < len(o) else 'missing'
    return res
