"""structure-aware corruption of valid frames (the malformed stream of the C03 check)"""
import framegen


def lit_section(fr, p):
    """parse the literals section header of the compressed block whose header is at p ->
    dict(type, sf, hlen, regen, comp, streams, tree_len, start) or None"""
    q = p + 3
    if q >= len(fr):
        return None
    b0 = fr[q]
    ty, sf = b0 & 3, (b0 >> 2) & 3
    if ty < 2:
        return None
    hlen = {0: 3, 1: 3, 2: 4, 3: 5}[sf]
    if q + hlen > len(fr):
        return None
    v = int.from_bytes(fr[q:q + hlen], 'little') >> 4
    nb = {0: 10, 1: 10, 2: 14, 3: 18}[sf]
    regen, comp = v & ((1 << nb) - 1), (v >> nb) & ((1 << nb) - 1)
    start = q + hlen
    tree = 0
    if ty == 2 and start < len(fr):
        hb = fr[start]
        tree = hb + 1 if hb < 128 else 1 + (hb - 127 + 1) // 2
    return {'type': ty, 'sf': sf, 'hlen': hlen, 'regen': regen, 'comp': comp, 'streams': 1 if sf == 0 else 4,
            'tree_len': tree, 'start': start}


def targeted(rng, fr):
    """mutations aimed at one decoder check each; -> (bytes, label) or None"""
    w = framegen.walk_blocks(fr)
    if not w:
        return None
    h, blocks, end = w
    comp = [x for x in blocks if x[2] == 2 and x[4] > 8]
    if not comp:
        return None
    b = bytearray(fr)
    p = rng.choice(comp)[0]
    ls = lit_section(fr, p)
    if not ls:
        return None
    k = rng.below(4)
    if k == 0 and ls['streams'] == 4:
        # jump table: the three stream sizes end 0..8 bytes around the end of the literals payload
        jt = ls['start'] + ls['tree_len']
        payload = ls['comp'] - ls['tree_len'] - 6
        if payload < 0 or jt + 6 > len(b):
            return None
        total = max(0, payload + rng.choice([-1, 0, 1, 2, 3, 4, 5, 6, 7, 8, 50]))
        j1 = rng.below(total + 1)
        j2 = rng.below(total - j1 + 1)
        j3 = total - j1 - j2
        for i, j in enumerate((j1, j2, j3)):
            b[jt + 2 * i: jt + 2 * i + 2] = (j & 0xFFFF).to_bytes(2, 'little')
        return bytes(b), 'jump-sum'
    if k == 1:
        # compressed -> treeless (or back): the table description becomes stream data / is missing
        b[p + 3] = (b[p + 3] & ~3) | (3 if ls['type'] == 2 else 2)
        return bytes(b), 'lit-type-flip'
    if k == 2:
        # compressed size field +-: the literals section ends elsewhere
        nb = {0: 10, 1: 10, 2: 14, 3: 18}[ls['sf']]
        v = int.from_bytes(b[p + 3:p + 3 + ls['hlen']], 'little')
        comp2 = max(0, min((1 << nb) - 1, ls['comp'] + rng.choice([-7, -6, -1, 1, 6, 7, 100])))
        v = (v & ~(((1 << nb) - 1) << (4 + nb))) | (comp2 << (4 + nb))
        b[p + 3:p + 3 + ls['hlen']] = v.to_bytes(ls['hlen'], 'little')
        return bytes(b), 'lit-comp-size'
    # regenerated size field
    nb = {0: 10, 1: 10, 2: 14, 3: 18}[ls['sf']]
    v = int.from_bytes(b[p + 3:p + 3 + ls['hlen']], 'little')
    reg2 = max(0, min((1 << nb) - 1, ls['regen'] + rng.choice([-1, 1, 2, 1000, -1000])))
    v = (v & ~(((1 << nb) - 1) << 4)) | (reg2 << 4)
    b[p + 3:p + 3 + ls['hlen']] = v.to_bytes(ls['hlen'], 'little')
    return bytes(b), 'lit-regen-size'


def tiny_huffman_frames(rng, n):
    """hand-built frames: one compressed block, 2..4-symbol direct-weight Huffman table, 4 streams, the jump
    table swept around the payload end (valid and invalid)"""
    out = []
    for _ in range(n):
        nw = rng.choice([1, 2, 3])
        weights = [1] * nw            # implied last weight completes the code
        tree = bytes([127 + nw]) + bytes(((weights[i] << 4) | (weights[i + 1] if i + 1 < nw else 0)) for i in range(0, nw, 2))
        payload = rng.bytes(rng.range(0, 12))
        payload = bytes(x | 1 for x in payload[:-1]) + (bytes([payload[-1] | 0x80]) if payload else b'')
        total = max(0, len(payload) + rng.choice([-2, -1, 0, 1, 2, 3, 4, 5, 6, 7]))
        j1 = rng.below(total + 1); j2 = rng.below(total - j1 + 1); j3 = total - j1 - j2
        jt = b''.join((j & 0xFFFF).to_bytes(2, 'little') for j in (j1, j2, j3))
        comp = len(tree) + 6 + len(payload)
        regen = rng.choice([4, 8, 16, 100])
        sf = 1
        hdr = ((2) | (sf << 2) | (regen << 4) | (comp << 14)).to_bytes(3, 'little')
        body = hdr + tree + jt + payload + b'\x00'
        blk = ((len(body) << 3) | (2 << 1) | 1).to_bytes(3, 'little') + body
        out.append((framegen.frame_header_bytes(window_log=10, fcs=None, checksum=0) + blk, 'tiny-huffman'))
    return out


def corrupt(rng, fr):
    """-> (bytes, label)"""
    if rng.below(3) == 0:
        t = targeted(rng, fr)
        if t:
            return t
    b = bytearray(fr)
    w = framegen.walk_blocks(fr)
    kinds = ['bitflip', 'byte', 'truncate', 'insert', 'delete', 'blocksize', 'blocktype', 'lithdr', 'seqhdr', 'jump', 'tail', 'splice', 'desc', 'zero-run']
    k = rng.choice(kinds)
    if k == 'bitflip' or not w:
        for _ in range(rng.range(1, 3)):
            if b:
                b[rng.below(len(b))] ^= 1 << rng.below(8)
        return bytes(b), 'bitflip'
    h, blocks, end = w
    comp = [x for x in blocks if x[2] == 2 and x[4] > 3]
    if k == 'byte':
        b[rng.below(len(b))] = rng.choice([0, 1, 0x7F, 0x80, 0xFF, rng.below(256)])
    elif k == 'truncate':
        b = b[:rng.below(len(b) + 1)]
    elif k == 'insert':
        p = rng.below(len(b) + 1)
        b[p:p] = rng.bytes(rng.range(1, 4))
    elif k == 'delete':
        p = rng.below(len(b))
        del b[p:p + rng.range(1, 3)]
    elif k == 'blocksize':
        p, last, ty, size, body = rng.choice(blocks)
        ns = rng.choice([0, 1, size + 1, max(size - 1, 0), 131072, 131073, (1 << 21) - 1, rng.below(1 << 21)])
        b[p:p + 3] = ((ns << 3) | (ty << 1) | last).to_bytes(3, 'little')
    elif k == 'blocktype':
        p, last, ty, size, body = rng.choice(blocks)
        b[p:p + 3] = ((size << 3) | (rng.below(4) << 1) | rng.below(2)).to_bytes(3, 'little')
    elif k == 'lithdr' and comp:
        p = rng.choice(comp)[0] + 3
        for i in range(rng.range(1, 3)):
            b[p + rng.below(min(5, len(b) - p))] = rng.below(256)
    elif k == 'jump' and comp:
        p, last, ty, size, body = rng.choice(comp)
        q = p + 3 + rng.range(3, min(body - 1, 140))
        b[q] = rng.choice([0, 0xFF, rng.below(256)])
    elif k == 'seqhdr' and comp:
        p, last, ty, size, body = rng.choice(comp)
        q = p + 3 + rng.below(body)
        b[q] = rng.choice([0, 1, 127, 128, 254, 255, rng.below(256)])
    elif k == 'tail' and comp:
        p, last, ty, size, body = rng.choice(comp)
        q = p + 3 + body - 1 - rng.below(min(3, body))
        b[q] = rng.choice([0, 1, 0x80, rng.below(256)])
    elif k == 'splice' and len(blocks) > 1:
        a = rng.choice(blocks)
        c = rng.choice(blocks)
        seg = bytes(b[c[0]:c[0] + 3 + c[4]])
        b[a[0]:a[0] + 3 + a[4]] = seg
    elif k == 'desc':
        b[4] = rng.below(256)
        if len(b) > 5 and rng.below(2):
            b[5] = rng.choice([0, 0xFF, rng.below(256)])
    else:
        p = rng.below(len(b))
        b[p:p + rng.range(1, 6)] = bytes(rng.range(1, 6))
    return bytes(b), k
