"""structure-aware corruption of valid frames (the malformed stream of the C03 check)"""
import framegen


def corrupt(rng, fr):
    """-> (bytes, label)"""
    b = bytearray(fr)
    w = framegen.walk_blocks(fr)
    kinds = ['bitflip', 'byte', 'truncate', 'insert', 'delete', 'blocksize', 'blocktype', 'lithdr', 'seqhdr', 'jump', 'tail', 'splice', 'desc', 'zero-run']
    k = rng.choice(kinds)
    if k == 'bitflip' or not w:
        for _ in range(rng.range(1, 3)):
            if b:
                b[rng.below(len(b))] ^= 1 << rng.below(8)
        return bytes(b), 'bitflip'
    h, blocks, end = w
    comp = [x for x in blocks if x[2] == 2 and x[4] > 3]
    if k == 'byte':
        b[rng.below(len(b))] = rng.choice([0, 1, 0x7F, 0x80, 0xFF, rng.below(256)])
    elif k == 'truncate':
        b = b[:rng.below(len(b) + 1)]
    elif k == 'insert':
        p = rng.below(len(b) + 1)
        b[p:p] = rng.bytes(rng.range(1, 4))
    elif k == 'delete':
        p = rng.below(len(b))
        del b[p:p + rng.range(1, 3)]
    elif k == 'blocksize':
        p, last, ty, size, body = rng.choice(blocks)
        ns = rng.choice([0, 1, size + 1, max(size - 1, 0), 131072, 131073, (1 << 21) - 1, rng.below(1 << 21)])
        b[p:p + 3] = ((ns << 3) | (ty << 1) | last).to_bytes(3, 'little')
    elif k == 'blocktype':
        p, last, ty, size, body = rng.choice(blocks)
        b[p:p + 3] = ((size << 3) | (rng.below(4) << 1) | rng.below(2)).to_bytes(3, 'little')
    elif k == 'lithdr' and comp:
        p = rng.choice(comp)[0] + 3
        for i in range(rng.range(1, 3)):
            b[p + rng.below(min(5, len(b) - p))] = rng.below(256)
    elif k == 'jump' and comp:
        p, last, ty, size, body = rng.choice(comp)
        q = p + 3 + rng.range(3, min(body - 1, 140))
        b[q] = rng.choice([0, 0xFF, rng.below(256)])
    elif k == 'seqhdr' and comp:
        p, last, ty, size, body = rng.choice(comp)
        q = p + 3 + rng.below(body)
        b[q] = rng.choice([0, 1, 127, 128, 254, 255, rng.below(256)])
    elif k == 'tail' and comp:
        p, last, ty, size, body = rng.choice(comp)
        q = p + 3 + body - 1 - rng.below(min(3, body))
        b[q] = rng.choice([0, 1, 0x80, rng.below(256)])
    elif k == 'splice' and len(blocks) > 1:
        a = rng.choice(blocks)
        c = rng.choice(blocks)
        seg = bytes(b[c[0]:c[0] + 3 + c[4]])
        b[a[0]:a[0] + 3 + a[4]] = seg
    elif k == 'desc':
        b[4] = rng.below(256)
        if len(b) > 5 and rng.below(2):
            b[5] = rng.choice([0, 0xFF, rng.below(256)])
    else:
        p = rng.below(len(b))
        b[p:p + rng.range(1, 6)] = bytes(rng.range(1, 6))
    return bytes(b), k
