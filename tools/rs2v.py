#!/usr/bin/env python3
"""rs2v -- translate a restricted subset of Rust (pure integer logic of ruzstd) to Gallina.

Tie 1 of the design: `coq/gen/Generated.v` is regenerated from /repo's working tree on every
check, so the theorems that mention generated definitions are re-checked against what the
source says *now*.  A source shape the translator does not understand is an error (exit 2,
naming the function): the check treats that as a broken tie, never as "fine".

Semantics of the translation
  * every sized integer is an unbounded Z;  + - * are the ideal operations and every such
    operation on a sized type also contributes a range check to the companion predicate
    `<fn>_safe` (path-sensitive: same lets / branches as the function), so that "no overflow
    or underflow on any input of the argument types" is a separate theorem;
  * `<<` on a sized type silently drops high bits in Rust, so it is `(a * 2^b) mod 2^w`;
    `>>`, `&` with a low mask, `/`, `%` are the obvious Z operations;
  * `as uN` narrows with `mod 2^N`; widening casts are the identity;
  * panics (`unreachable!`, `panic!`, `unimplemented!`, `assert!`) are the value `RPanic`,
    `Err(..)` is `RErr "<variant>"`, `Ok(e)` is `ROk e`;
  * `&mut` parameters and `self.<field>` assignments become extra results (listed per function
    in SPEC below).
"""
import re, sys, os, hashlib, json

# ----------------------------------------------------------------------------- tokenizer

TOK_RE = re.compile(r"""
    (?P<ws>\s+|//[^\n]*|/\*.*?\*/)
  | (?P<num>0x[0-9a-fA-F_]+|0b[01_]+|[0-9][0-9_]*)(?P<suf>u8|u16|u32|u64|u128|usize|i8|i16|i32|i64|isize)?
  | (?P<str>"(?:[^"\\]|\\.)*")
  | (?P<life>'[a-z_]+\b(?!'))
  | (?P<chr>'(?:[^'\\]|\\.)')
  | (?P<id>[A-Za-z_][A-Za-z0-9_]*!?)
  | (?P<op>\.\.=|\.\.|::|->|=>|<<=|>>=|<<|>>|<=|>=|==|!=|&&|\|\||\+=|-=|\*=|/=|%=|\|=|&=|\^=|[-+*/%&|^!<>=.,;:(){}\[\]?#@])
""", re.X | re.S)


class TranslateError(Exception):
    pass


def tokenize(src):
    toks = []
    pos = 0
    while pos < len(src):
        m = TOK_RE.match(src, pos)
        if not m:
            raise TranslateError("cannot tokenize at: %r" % src[pos:pos + 30])
        pos = m.end()
        if m.group('ws'):
            continue
        if m.group('num'):
            t = m.group('num').replace('_', '')
            v = int(t, 16) if t.startswith('0x') else int(t[2:], 2) if t.startswith('0b') else int(t)
            toks.append(('num', v, m.group('suf')))
        elif m.group('str'):
            toks.append(('str', m.group('str'), None))
        elif m.group('chr'):
            toks.append(('chr', m.group('chr'), None))
        elif m.group('life'):
            toks.append(('life', m.group('life'), None))
        elif m.group('id'):
            toks.append(('id', m.group('id'), None))
        else:
            toks.append(('op', m.group('op'), None))
    toks.append(('eof', None, None))
    return toks


# ----------------------------------------------------------------------------- item extraction

def strip_comments(src):
    return re.sub(r"//[^\n]*", "", src)


def find_item(src, header_re):
    """return the text of the item whose header matches header_re, up to the matching close brace
    (or the terminating ';' for consts)."""
    m = re.search(header_re, src, re.M)
    if not m:
        return None
    i = m.start()
    depth = 0
    j = m.end()
    # walk to first '{' or ';' at depth 0 (paren depth ignored for consts with [..; N])
    k = i
    bdepth = 0
    while k < len(src):
        c = src[k]
        if src.startswith('//', k):
            k = src.index('\n', k)
            continue
        if c == '"':
            k += 1
            while src[k] != '"':
                if src[k] == '\\':
                    k += 1
                k += 1
        elif c == "'" and re.match(r"'(?:[^'\\]|\\.)'", src[k:k + 4]):
            k += len(re.match(r"'(?:[^'\\]|\\.)'", src[k:k + 4]).group(0)) - 1
        elif c in '[(':
            bdepth += 1
        elif c in '])':
            bdepth -= 1
        elif c == '{':
            depth += 1
        elif c == '}':
            depth -= 1
            if depth == 0:
                return src[i:k + 1]
        elif c == ';' and depth == 0 and bdepth == 0:
            return src[i:k + 1]
        k += 1
    raise TranslateError("unterminated item for %s" % header_re)


# ----------------------------------------------------------------------------- parser

class P:
    def __init__(self, toks):
        self.t = toks
        self.i = 0

    def peek(self, k=0):
        return self.t[self.i + k]

    def at(self, kind, val=None):
        t = self.t[self.i]
        return t[0] == kind and (val is None or t[1] == val)

    def at_op(self, v):
        return self.at('op', v)

    def at_id(self, v):
        return self.at('id', v)

    def eat(self, kind, val=None):
        if not self.at(kind, val):
            raise TranslateError("expected %s %r, got %r (near token %d)" % (kind, val, self.t[self.i], self.i))
        t = self.t[self.i]
        self.i += 1
        return t

    def maybe(self, kind, val=None):
        if self.at(kind, val):
            self.i += 1
            return True
        return False

    # ---- types (kept as strings)
    def parse_type(self):
        start = self.i
        depth = 0
        while True:
            t = self.peek()
            if t[0] == 'op' and t[1] in '([<':
                depth += 1
            elif t[0] == 'op' and t[1] in ')]>':
                if depth == 0:
                    break
                depth -= 1
            elif t[0] == 'op' and t[1] == '>>':
                if depth < 2:
                    break
                depth -= 2
            elif t[0] == 'op' and t[1] in (',', '=', '{', ';') and depth == 0:
                break
            elif t[0] == 'eof':
                break
            self.i += 1
        return ' '.join(str(x[1]) for x in self.t[start:self.i])

    # ---- fn
    def parse_fn(self):
        while not self.at_id('fn'):
            self.i += 1
        self.eat('id', 'fn')
        name = self.eat('id')[1]
        if self.at_op('<'):
            d = 0
            while True:
                if self.at_op('<'):
                    d += 1
                if self.at_op('>'):
                    d -= 1
                self.i += 1
                if d == 0:
                    break
        self.eat('op', '(')
        params = []
        while not self.at_op(')'):
            if self.at_op('&'):
                self.i += 1
                self.maybe('life')
                mut = self.maybe('id', 'mut')
                self.eat('id', 'self')
                params.append(('self', '&mut Self' if mut else '&Self'))
            elif self.at_id('self'):
                self.i += 1
                params.append(('self', 'Self'))
            else:
                self.maybe('id', 'mut')
                pn = self.eat('id')[1]
                self.eat('op', ':')
                ty = self.parse_type()
                params.append((pn, ty))
            self.maybe('op', ',')
        self.eat('op', ')')
        ret = None
        if self.maybe('op', '->'):
            ret = self.parse_type()
        body = self.parse_block()
        return {'name': name, 'params': params, 'ret': ret, 'body': body}

    def parse_block(self):
        self.eat('op', '{')
        stmts = []
        while not self.at_op('}'):
            s = self.parse_stmt()
            if s is not None:
                stmts.append(s)
        self.eat('op', '}')
        return stmts

    def skip_attr(self):
        while self.at_op('#'):
            self.i += 1
            self.maybe('op', '!')
            self.eat('op', '[')
            d = 1
            while d:
                if self.at_op('['):
                    d += 1
                if self.at_op(']'):
                    d -= 1
                self.i += 1

    def parse_stmt(self):
        self.skip_attr()
        if self.at_op(';'):
            self.i += 1
            return None
        if self.at_id('const'):
            self.i += 1
            n = self.eat('id')[1]
            self.eat('op', ':')
            ty = self.parse_type()
            self.eat('op', '=')
            e = self.parse_expr()
            self.eat('op', ';')
            return ('let', n, ty, e)
        if self.at_id('let'):
            self.i += 1
            self.maybe('id', 'mut')
            if self.at_op('('):
                self.i += 1
                names = []
                while not self.at_op(')'):
                    self.maybe('id', 'mut')
                    names.append(self.eat('id')[1])
                    self.maybe('op', ',')
                self.eat('op', ')')
                n = tuple(names)
            else:
                n = self.eat('id')[1]
            ty = None
            if self.maybe('op', ':'):
                ty = self.parse_type()
            self.eat('op', '=')
            e = self.parse_expr()
            self.eat('op', ';')
            return ('let', n, ty, e)
        if self.at_id('return'):
            self.i += 1
            e = None if self.at_op(';') else self.parse_expr()
            self.maybe('op', ';')
            return ('return', e)
        if self.at_id('vprintln!') or self.at_id('debug_assert!') or self.at_id('debug_assert_eq!'):
            self.i += 1
            self.skip_parens()
            self.maybe('op', ';')
            return None
        e = self.parse_expr()
        # assignment?
        if self.at('op') and self.peek()[1] in ('=', '+=', '-=', '*=', '|=', '&=', '<<=', '>>=', '/=', '%=', '^='):
            op = self.eat('op')[1]
            rhs = self.parse_expr()
            self.eat('op', ';')
            if op != '=':
                rhs = ('bin', op[:-1], e, rhs)
            return ('assign', e, rhs)
        if self.maybe('op', ';'):
            return ('expr', e)
        if self.at_op('}'):
            return ('final', e)
        if e[0] in ('if', 'match', 'block', 'iflet'):
            return ('expr', e)
        raise TranslateError("statement not understood near token %r" % (self.peek(),))

    def skip_parens(self):
        open_ = self.eat('op')[1]
        close = {'(': ')', '[': ']', '{': '}'}[open_]
        d = 1
        while d:
            if self.at_op(open_):
                d += 1
            if self.at_op(close):
                d -= 1
            if self.at('eof'):
                raise TranslateError('unbalanced')
            self.i += 1

    # ---- expressions (Pratt)
    BIN = [
        (['||'], 1), (['&&'], 2), (['==', '!=', '<', '>', '<=', '>='], 3), (['|'], 4), (['^'], 5), (['&'], 6),
        (['<<', '>>'], 7), (['+', '-'], 8), (['*', '/', '%'], 9),
    ]
    PREC = {op: p for ops, p in BIN for op in ops}

    def parse_expr(self, minp=0, nostruct=False):
        lhs = self.parse_unary(nostruct)
        while True:
            t = self.peek()
            if t[0] == 'id' and t[1] == 'as':
                if 10 < minp:
                    break
                self.i += 1
                ty = self.parse_cast_type()
                lhs = ('as', lhs, ty)
                continue
            if t[0] == 'op' and t[1] in ('..=', '..') and minp == 0:
                self.i += 1
                hi = None
                if not (self.at_op('=>') or self.at_op(')') or self.at_op('{') or self.at_op(']') or self.at_op(',')):
                    hi = self.parse_expr(1, nostruct)
                lhs = ('range', lhs, hi, t[1] == '..=')
                continue
            if t[0] == 'op' and t[1] in self.PREC:
                p = self.PREC[t[1]]
                if p < minp or p == 0:
                    break
                if p < max(minp, 1):
                    break
                self.i += 1
                rhs = self.parse_expr(p + 1, nostruct)
                lhs = ('bin', t[1], lhs, rhs)
                continue
            break
        return lhs

    def parse_cast_type(self):
        t = self.eat('id')[1]
        return t

    def parse_unary(self, nostruct):
        if self.at_op('!'):
            self.i += 1
            return ('not', self.parse_unary(nostruct))
        if self.at_op('-'):
            self.i += 1
            return ('neg', self.parse_unary(nostruct))
        if self.at_op('&') or self.at_op('*'):
            self.i += 1
            self.maybe('id', 'mut')
            return self.parse_unary(nostruct)
        if self.at_op('&&'):
            self.i += 1
            return self.parse_unary(nostruct)
        return self.parse_postfix(self.parse_primary(nostruct))

    def parse_postfix(self, e):
        while True:
            if self.at_op('.'):
                self.i += 1
                if self.at('num'):
                    e = ('field', e, str(self.eat('num')[1]))
                    continue
                n = self.eat('id')[1]
                if self.at_op('('):
                    args = self.parse_args()
                    e = ('mcall', e, n, args)
                else:
                    e = ('field', e, n)
            elif self.at_op('['):
                self.i += 1
                idx = self.parse_expr()
                self.eat('op', ']')
                e = ('index', e, idx)
            elif self.at_op('?'):
                self.i += 1
                e = ('try', e)
            else:
                return e

    def parse_args(self):
        self.eat('op', '(')
        args = []
        while not self.at_op(')'):
            args.append(self.parse_expr())
            self.maybe('op', ',')
        self.eat('op', ')')
        return args

    def parse_primary(self, nostruct):
        t = self.peek()
        if t[0] == 'num':
            self.i += 1
            return ('num', t[1], t[2])
        if t[0] == 'op' and t[1] == '(':
            self.i += 1
            if self.at_op(')'):
                self.i += 1
                return ('tuple', [])
            e = self.parse_expr()
            if self.at_op(','):
                items = [e]
                while self.maybe('op', ','):
                    if self.at_op(')'):
                        break
                    items.append(self.parse_expr())
                self.eat('op', ')')
                return ('tuple', items)
            self.eat('op', ')')
            return ('paren', e)
        if t[0] == 'op' and t[1] == '[':
            self.i += 1
            items = []
            while not self.at_op(']'):
                items.append(self.parse_expr())
                if self.at_op(';'):
                    self.i += 1
                    n = self.parse_expr()
                    self.eat('op', ']')
                    return ('arrayrep', items[0], n)
                self.maybe('op', ',')
            self.eat('op', ']')
            return ('array', items)
        if t[0] == 'op' and t[1] == '{':
            return ('block', self.parse_block())
        if t[0] == 'op' and t[1] == '|':
            raise TranslateError('closures are not supported')
        if t[0] == 'id':
            if t[1] == 'if':
                return self.parse_if()
            if t[1] == 'match':
                return self.parse_match()
            if t[1] in ('unreachable!', 'panic!', 'unimplemented!', 'todo!'):
                self.i += 1
                if self.at_op('(') or self.at_op('[') or self.at_op('{'):
                    self.skip_parens()
                return ('panic', t[1])
            if t[1] in ('assert!', 'assert_eq!'):
                self.i += 1
                self.eat('op', '(')
                c = self.parse_expr()
                c2 = None
                if t[1] == 'assert_eq!':
                    self.eat('op', ',')
                    c2 = self.parse_expr()
                d = 1
                while d:
                    if self.at_op('('):
                        d += 1
                    if self.at_op(')'):
                        d -= 1
                    self.i += 1
                return ('assert', c if c2 is None else ('bin', '==', c, c2))
            if t[1] in ('true', 'false'):
                self.i += 1
                return ('bool', t[1] == 'true')
            # path
            self.i += 1
            path = [t[1]]
            while self.at_op('::'):
                self.i += 1
                if self.at_op('<'):
                    d = 0
                    while True:
                        if self.at_op('<'):
                            d += 1
                        if self.at_op('>'):
                            d -= 1
                        self.i += 1
                        if d == 0:
                            break
                    continue
                path.append(self.eat('id')[1])
            if self.at_op('('):
                args = self.parse_args()
                return ('call', path, args)
            if self.at_op('{') and not nostruct and path[-1][0].isupper() and not path[-1].isupper():
                # struct literal: skip contents, keep the variant name
                self.skip_parens()
                return ('struct', path)
            return ('path', path)
        raise TranslateError("expression not understood at %r" % (t,))

    def parse_if(self):
        self.eat('id', 'if')
        if self.at_id('let'):
            self.i += 1
            pat = self.parse_pattern()
            self.eat('op', '=')
            scrut = self.parse_expr(nostruct=True)
            then = self.parse_block()
            els = None
            if self.maybe('id', 'else'):
                els = [('final', self.parse_if())] if self.at_id('if') else self.parse_block()
            return ('iflet', pat, scrut, then, els)
        c = self.parse_expr(nostruct=True)
        then = self.parse_block()
        els = None
        if self.maybe('id', 'else'):
            if self.at_id('if'):
                els = [('final', self.parse_if())]
            else:
                els = self.parse_block()
        return ('if', c, then, els)

    def parse_pattern(self):
        alts = [self.parse_pattern1()]
        while self.maybe('op', '|'):
            alts.append(self.parse_pattern1())
        return alts[0] if len(alts) == 1 else ('por', alts)

    def parse_pattern1(self):
        t = self.peek()
        if t[0] == 'num':
            self.i += 1
            lo = t[1]
            if self.at_op('..=') or self.at_op('..'):
                incl = self.eat('op')[1] == '..='
                if self.at('num'):
                    hi = self.eat('num')[1]
                    return ('prange', lo, hi if incl else hi - 1)
                if self.at('id') and self.peek()[1].isupper():
                    return ('prange_c', lo, self.eat('id')[1], incl)
                return ('prange', lo, None)
            return ('pnum', lo)
        if t[0] == 'id':
            if t[1] == '_':
                self.i += 1
                return ('pwild',)
            if t[1] in ('true', 'false'):
                self.i += 1
                return ('pbool', t[1] == 'true')
            self.i += 1
            path = [t[1]]
            while self.maybe('op', '::'):
                path.append(self.eat('id')[1])
            if self.at_op('('):
                self.i += 1
                subs = []
                while not self.at_op(')'):
                    subs.append(self.parse_pattern())
                    self.maybe('op', ',')
                self.eat('op', ')')
                return ('pctor', path, subs)
            if len(path) == 1 and not path[0][0].isupper():
                return ('pvar', path[0])
            return ('pctor', path, [])
        raise TranslateError('pattern not understood at %r' % (t,))

    def parse_match(self):
        self.eat('id', 'match')
        scrut = self.parse_expr(nostruct=True)
        self.eat('op', '{')
        arms = []
        while not self.at_op('}'):
            pat = self.parse_pattern()
            self.eat('op', '=>')
            if self.at_op('{'):
                body = self.parse_block()
            else:
                body = [('final', self.parse_expr())]
            self.maybe('op', ',')
            arms.append((pat, body))
        self.eat('op', '}')
        return ('match', scrut, arms)


# ----------------------------------------------------------------------------- translation

WIDTH = {'u8': 8, 'u16': 16, 'u32': 32, 'u64': 64, 'usize': 64, 'u128': 128}
SIGNED = {'i8': 8, 'i16': 16, 'i32': 32, 'i64': 64, 'isize': 64}


def zlit(v):
    return str(v) if v >= 0 else "(%d)" % v


def is_pow2(n):
    return n > 0 and n & (n - 1) == 0


class Tr:
    """Translate one function.  `spec` fields:
         self_fields: {rust field path: (coq var, type)}   reads of self.<path>
         outs:        [coq var]  extra results appended to every normal return (mutated state)
         plain_calls: {rust callee name: (coq name, ret type, [self field args])}
         res_calls:   same, for callees returning `res`
         consts:      {NAME: type}
    """

    def __init__(self, fn, spec, env):
        self.fn = fn
        self.spec = spec
        self.env = env          # global: consts, functions
        self.types = {}
        self.is_res = spec.get('res', None)
        self.outs = spec.get('outs', [])
        self.fresh = 0

    # -- result wrappers
    def ret_ok(self, code):
        vals = [code] + self.outs if self.outs else [code]
        tup = vals[0] if len(vals) == 1 else '(' + ', '.join(vals) + ')'
        return 'ROk %s' % paren(tup) if self.is_res else tup

    def ret_other(self, kind, msg):
        if not self.is_res:
            raise TranslateError("%s: panic/error in a function declared plain" % self.fn['name'])
        return '%s "%s"' % (kind, msg)

    # -- expressions: returns (code, type, checks)
    def ex(self, e, expect=None):
        k = e[0]
        if k == 'num':
            return zlit(e[1]), e[2] or expect, []
        if k == 'bool':
            return ('true' if e[1] else 'false'), 'bool', []
        if k == 'paren':
            c, t, ch = self.ex(e[1], expect)
            return c, t, ch
        if k == 'path':
            p = e[1]
            name = p[-1]
            if len(p) == 1 and name in self.types:
                return self.var(name), self.types[name], []
            if name in self.env['consts']:
                return self.env['consts'][name][0], self.env['consts'][name][1], []
            if len(p) == 2 and p[0] in WIDTH and p[1] == 'MAX':
                return zlit(2 ** WIDTH[p[0]] - 1), p[0], []
            if len(p) == 2 and p[0] in WIDTH and p[1] == 'BITS':
                return zlit(WIDTH[p[0]]), 'u32', []
            if p == ['None']:
                return 'None', ('option', None), []
            raise TranslateError("%s: unknown name %s" % (self.fn['name'], '::'.join(p)))
        if k == 'field':
            path = self.field_path(e)
            sf = self.spec.get('self_fields', {})
            if path in sf:
                return sf[path][0], sf[path][1], []
            if e[1][0] == 'path' and len(e[1][1]) == 1 and e[1][1][0] in self.types:
                # tuple projection on a local
                raise TranslateError("%s: tuple projection unsupported" % self.fn['name'])
            raise TranslateError("%s: unknown field %s" % (self.fn['name'], path))
        if k == 'as':
            c, t, ch = self.ex(e[1])
            ty = e[2]
            if t == 'bool':
                return '(if %s then 1 else 0)' % c, ty, ch
            if ty in WIDTH:
                if t in WIDTH and WIDTH[t] <= WIDTH[ty]:
                    return c, ty, ch
                if e[1][0] == 'num' and 0 <= e[1][1] < 2 ** WIDTH[ty]:
                    return c, ty, ch
                if WIDTH[ty] >= 64 and t is None:
                    raise TranslateError("%s: cast of untyped value to %s" % (self.fn['name'], ty))
                return '(%s mod %s)' % (c, zlit(2 ** WIDTH[ty])), ty, ch
            raise TranslateError("%s: cast to %s unsupported" % (self.fn['name'], ty))
        if k == 'call':
            p, args = e[1], e[2]
            if len(p) == 2 and p[0] in WIDTH and p[1] == 'from':
                c, t, ch = self.ex(args[0])
                if t == 'bool':
                    return '(if %s then 1 else 0)' % c, p[0], ch
                return c, p[0], ch
            if len(p) == 2 and p[0] in WIDTH and p[1] in ('min', 'max'):
                a, ta, ca = self.ex(args[0])
                b, tb, cb = self.ex(args[1])
                return '(Z.%s %s %s)' % (p[1], a, b), p[0], ca + cb
            name = p[-1]
            if name == 'Some' and len(args) == 1:
                c, t, ch = self.ex(args[0])
                return '(Some %s)' % c, ('option', t), ch
            if name in self.spec.get('identity_ctors', []):
                return self.ex(args[0], expect)
            pc = self.spec.get('plain_calls', {})
            if name in pc:
                cn, rt, extra = pc[name]
                codes, chk = [], []
                for a in args:
                    c, t, ch = self.ex(a)
                    codes.append(paren(c))
                    chk += ch
                return '(%s)' % ' '.join([cn] + extra + codes), rt, chk
            raise TranslateError("%s: call to %s unsupported" % (self.fn['name'], '::'.join(p)))
        if k == 'mcall':
            recv, m, args = e[1], e[2], e[3]
            # self.method() on plain callee
            if recv[0] == 'path' and recv[1] == ['self'] or recv[0] == 'field':
                pc = self.spec.get('plain_calls', {})
                key = m if recv[0] == 'path' else self.field_path(recv) + '.' + m
                if key in pc:
                    cn, rt, extra = pc[key]
                    codes, chk = [], []
                    for a in args:
                        c, t, ch = self.ex(a)
                        codes.append(paren(c))
                        chk += ch
                    if not (extra or codes):
                        return cn, rt, chk
                    return '(%s)' % ' '.join([cn] + extra + codes), rt, chk
            c, t, ch = self.ex(recv)
            if m == 'ilog2':
                return '(Z.log2 %s)' % c, 'u32', ch + ['(0 <? %s)' % c]
            if m == 'saturating_sub':
                a, ta, ca = self.ex(args[0])
                return '(Z.max 0 (%s - %s))' % (c, a), t, ch + ca
            if m in ('min', 'max'):
                a, ta, ca = self.ex(args[0])
                return '(Z.%s %s %s)' % (m, c, a), t or ta, ch + ca
            if m == 'next_power_of_two':
                return '(npot %s)' % c, t, ch + [self.rng(t, '(npot %s)' % c)]
            if m == 'len':
                return '(Z.of_nat (List.length %s))' % c, 'usize', ch
            if m == 'is_empty':
                return '(Nat.eqb (List.length %s) 0)' % c, 'bool', ch
            if m == 'contains' and recv[0] == 'paren' and recv[1][0] == 'range':
                r = recv[1]
                lo, _, c1 = self.ex(r[1])
                hi, _, c2 = self.ex(r[2])
                a, _, c3 = self.ex(args[0])
                cmp_hi = '<=?' if r[3] else '<?'
                return '((%s <=? %s) && (%s %s %s))' % (lo, a, a, cmp_hi, hi), 'bool', c1 + c2 + c3
            if m == 'is_some':
                return '(is_some %s)' % c, 'bool', ch
            if m == 'is_none':
                return '(negb (is_some %s))' % c, 'bool', ch
            raise TranslateError("%s: method %s unsupported" % (self.fn['name'], m))
        if k == 'index':
            sf = self.spec.get('self_fields', {})
            try:
                fp = self.field_path(e)
            except TranslateError:
                fp = None
            if fp is not None and fp in sf:
                return sf[fp][0], sf[fp][1], []
            c, t, ch = self.ex(e[1])
            i, ti, chi = self.ex(e[2])
            elt = None
            if t:
                mm = re.match(r"&?\s*(?:mut\s*)?\[\s*(\w+)", t)
                if mm:
                    elt = mm.group(1)
            bound = '(%s <? Z.of_nat (List.length %s))' % (i, c)
            return '(znth %s %s)' % (c, paren(i)), elt, ch + chi + ['(0 <=? %s)' % i, bound]
        if k == 'not':
            c, t, ch = self.ex(e[1])
            if t == 'bool':
                return '(negb %s)' % c, 'bool', ch
            raise TranslateError("%s: bitwise not unsupported" % self.fn['name'])
        if k == 'neg':
            c, t, ch = self.ex(e[1])
            return '(- %s)' % c, t, ch
        if k == 'bin':
            return self.binop(e, expect)
        if k == 'tuple':
            codes, chk, tys = [], [], []
            for a in e[1]:
                c, t, ch = self.ex(a)
                codes.append(c)
                tys.append(t)
                chk += ch
            return '(' + ', '.join(codes) + ')', ('tuple', tys), chk
        if k == 'if':
            # pure expression-level if
            c, t, ch = self.ex(e[1])
            a = self.block_expr(e[2])
            b = self.block_expr(e[3])
            if ch or a[2] or b[2]:
                # keep path sensitivity: checks of branches are guarded
                chk = ch + ['(if %s then %s else %s)' % (c, conj(a[2]), conj(b[2]))]
            else:
                chk = []
            return '(if %s then %s else %s)' % (c, a[0], b[0]), a[1] or b[1], chk
        if k == 'block':
            return self.block_expr(e[1])
        if k == 'match':
            # expression-level match over integers with pure arms
            sc, st, sch = self.ex(e[1])
            out = None
            ty = None
            chk_terms = []
            arms = e[2]
            code = None
            for pat, body in reversed(arms):
                b = self.block_expr(body)
                ty = ty or b[1]
                cond = self.pat_cond(pat, sc)
                if cond is None:
                    code = b[0]
                    chk_code = conj(b[2])
                else:
                    if code is None:
                        raise TranslateError("%s: non-exhaustive expression match" % self.fn['name'])
                    code = '(if %s then %s else %s)' % (cond, b[0], code)
                    chk_code = '(if %s then %s else %s)' % (cond, conj(b[2]), chk_code)
            return code, ty, sch + ([chk_code] if chk_code != 'true' else [])
        raise TranslateError("%s: expression kind %s unsupported" % (self.fn['name'], k))

    def block_expr(self, stmts):
        if stmts is None:
            raise TranslateError("%s: if without else in expression position" % self.fn['name'])
        if len(stmts) == 1 and stmts[0][0] == 'final':
            return self.ex(stmts[0][1])
        raise TranslateError("%s: block expression with statements unsupported" % self.fn['name'])

    def field_path(self, e):
        if e[0] == 'field':
            base = self.field_path(e[1])
            return (base + '.' if base else '') + e[2]
        if e[0] == 'path' and e[1] == ['self']:
            return ''
        if e[0] == 'path' and len(e[1]) == 1:
            return e[1][0]
        if e[0] == 'index':
            i = e[2]
            if i[0] == 'num':
                return self.field_path(e[1]) + '[%d]' % i[1]
        raise TranslateError("%s: field path not understood" % self.fn['name'])

    def rng(self, t, code):
        if t in WIDTH:
            return '(in_u %d %s)' % (WIDTH[t], code)
        if t in SIGNED:
            return '(in_i %d %s)' % (SIGNED[t], code)
        return None

    def binop(self, e, expect=None):
        op = e[1]
        cmp_ = op in ('==', '!=', '<', '>', '<=', '>=', '&&', '||')
        shift = op in ('<<', '>>')
        a, ta, ca = self.ex(e[2], None if cmp_ else expect)
        b, tb, cb = self.ex(e[3], None if (cmp_ or shift) else (ta or expect))
        if ta is None and tb is not None and not shift:
            a, ta, ca = self.ex(e[2], tb)
        if cmp_ and tb is None and ta is not None and op not in ('&&', '||'):
            b, tb, cb = self.ex(e[3], ta)
        t = ta or tb
        chk = ca + cb
        if op in ('&&', '||'):
            # short-circuit: checks of rhs only matter when evaluated
            if cb:
                g = a if op == '&&' else '(negb %s)' % a
                chk = ca + ['(if %s then %s else true)' % (g, conj(cb))]
            return '(%s %s %s)' % (a, op, b), 'bool', chk
        if op in ('==', '!=', '<', '>', '<=', '>='):
            if ta == 'bool' or tb == 'bool':
                if op == '==':
                    return '(Bool.eqb %s %s)' % (a, b), 'bool', chk
                if op == '!=':
                    return '(negb (Bool.eqb %s %s))' % (a, b), 'bool', chk
            m = {'==': '(%s =? %s)', '!=': '(negb (%s =? %s))', '<': '(%s <? %s)', '<=': '(%s <=? %s)',
                 '>': '(%s >? %s)', '>=': '(%s >=? %s)'}[op]
            return m % (a, b), 'bool', chk
        if op in ('+', '-', '*'):
            code = '(%s %s %s)' % (a, op, b)
            r = self.rng(t, code)
            if r is None:
                raise TranslateError("%s: arithmetic on value of unknown type: %s" % (self.fn['name'], code))
            return code, t, chk + [r]
        if op == '/':
            return '(%s / %s)' % (a, b), t, chk + ['(negb (%s =? 0))' % b]
        if op == '%':
            return '(%s mod %s)' % (a, b), t, chk + ['(negb (%s =? 0))' % b]
        if op == '<<':
            if ta is None and e[2][0] == 'num':
                ta = None
            w = WIDTH.get(ta)
            if w is None and ta is None:
                # untyped literal shifted: type comes from context; treat as wide (checked by caller's cast)
                code = '(%s * 2 ^ %s)' % (a, b)
                return code, None, chk
            if w is None:
                raise TranslateError("%s: shift on type %s" % (self.fn['name'], ta))
            code = '((%s * 2 ^ %s) mod %s)' % (a, b, zlit(2 ** w))
            return code, ta, chk + ['(%s <? %d)' % (b, w), '(0 <=? %s)' % b]
        if op == '>>':
            w = WIDTH.get(ta)
            code = '(%s / 2 ^ %s)' % (a, b)
            c2 = ['(%s <? %d)' % (b, w)] if w else []
            return code, ta, chk + c2
        if op == '&':
            for x, y, tx in ((a, e[3], ta), (b, e[2], tb)):
                if y[0] == 'num' and is_pow2(y[1] + 1):
                    return '(%s mod %s)' % (x, zlit(y[1] + 1)), t, chk
            return '(Z.land %s %s)' % (a, b), t, chk
        if op == '|':
            return '(Z.lor %s %s)' % (a, b), t, chk
        if op == '^':
            return '(Z.lxor %s %s)' % (a, b), t, chk
        raise TranslateError("%s: operator %s unsupported" % (self.fn['name'], op))

    def var(self, n):
        return {'self': 'self_'}.get(n, n if n not in COQ_KEYWORDS else n + '_')

    # -- patterns over integers
    def pat_cond(self, pat, sc):
        k = pat[0]
        if k == 'pwild' or k == 'pvar':
            return None
        if k == 'pnum':
            return '(%s =? %s)' % (sc, zlit(pat[1]))
        if k == 'prange':
            if pat[2] is None:
                return '(%s <=? %s)' % (zlit(pat[1]), sc)
            return '((%s <=? %s) && (%s <=? %s))' % (zlit(pat[1]), sc, sc, zlit(pat[2]))
        if k == 'prange_c':
            cn = self.types.get(pat[2]) and self.var(pat[2]) or self.env['consts'][pat[2]][0]
            return '((%s <=? %s) && (%s %s %s))' % (zlit(pat[1]), sc, sc, '<=?' if pat[3] else '<?', cn)
        if k == 'por':
            cs = [self.pat_cond(p, sc) for p in pat[1]]
            if any(c is None for c in cs):
                return None
            return '(' + ' || '.join(cs) + ')'
        if k == 'pbool':
            return sc if pat[1] else '(negb %s)' % sc
        if k == 'pctor' and not pat[2] and pat[1][-1] in self.env['consts']:
            return '(%s =? %s)' % (sc, self.env['consts'][pat[1][-1]][0])
        raise TranslateError("%s: pattern %s unsupported" % (self.fn['name'], k))

    # -- statements, with the rest of the enclosing blocks as continuation `k` (a list of stmts)
    def stmts(self, ss, safe):
        """ss: list of statements (the continuation already appended).  Returns Gallina code."""
        if not ss:
            return 'true' if safe else self.ret_ok('tt')
        s, rest = ss[0], ss[1:]
        k = s[0]
        if k == 'let':
            name, ty, e = s[1], s[2], s[3]
            if e[0] == 'try':
                return self.bind_res(name, ty, e[1], rest, safe)
            if e[0] in ('if', 'match') and not self.is_pure(e):
                if isinstance(name, tuple):
                    raise TranslateError("%s: tuple let with impure control flow" % self.fn['name'])
                lt = self.spec.get('let_types', {})
                if norm_ty(ty) is None and name not in lt:
                    raise TranslateError("%s: let %s = <control> needs a type (let_types)" % (self.fn['name'], name))
                self.types[name] = norm_ty(ty) or lt[name]
                return self.control(self.push_let(e, name, ty), rest, safe, final=False)
            lt = self.spec.get('let_types', {})
            want = norm_ty(ty) or (lt.get(name) if not isinstance(name, tuple) else None)
            c, t, ch = self.ex(e, want)
            if isinstance(name, tuple):
                if not (isinstance(t, tuple) and t[0] == 'tuple'):
                    tys = [None] * len(name)
                else:
                    tys = t[1]
                for n, tt in zip(name, tys):
                    self.types[n] = tt
                body = self.stmts(rest, safe)
                code = "let '(%s) := %s in\n%s" % (', '.join(self.var(n) for n in name), c, body)
            else:
                self.types[name] = want or t
                body = self.stmts(rest, safe)
                code = 'let %s := %s in\n%s' % (self.var(name), c, body)
            return self.guard(ch, code, safe)
        if k == 'assign':
            lhs, rhs = s[1], s[2]
            if rhs[0] == 'try':
                tmp = '_t%d' % self.fresh
                self.fresh += 1
                return self.bind_res(tmp, None, rhs[1], [('assign', lhs, ('path', [tmp]))] + rest, safe)
            c, t, ch = self.ex(rhs)
            if lhs[0] == 'index':
                base = lhs[1]
                i, ti, chi = self.ex(lhs[2])
                bv, bt, _ = self.ex(base)
                ch = ch + chi + ['(0 <=? %s)' % i, '(%s <? Z.of_nat (List.length %s))' % (i, bv)]
                code = 'let %s := zupd %s %s %s in\n%s' % (bv, bv, paren(i), paren(c), self.stmts(rest, safe))
                return self.guard(ch, code, safe)
            if lhs[0] == 'field':
                path = self.field_path(lhs)
                sf = self.spec.get('self_fields', {})
                if path not in sf:
                    raise TranslateError("%s: assignment to unknown field %s" % (self.fn['name'], path))
                v = sf[path][0]
                code = 'let %s := %s in\n%s' % (v, c, self.stmts(rest, safe))
                return self.guard(ch, code, safe)
            if lhs[0] == 'path' and len(lhs[1]) == 1:
                v = lhs[1][0]
                if v not in self.types:
                    raise TranslateError("%s: assignment to unknown variable %s" % (self.fn['name'], v))
                code = 'let %s := %s in\n%s' % (self.var(v), c, self.stmts(rest, safe))
                return self.guard(ch, code, safe)
            raise TranslateError("%s: assignment target unsupported" % self.fn['name'])
        if k == 'return':
            return self.leaf(s[1], safe)
        if k == 'final':
            e = s[1]
            if e[0] == 'mcall' and self.is_stmt_call(e):
                return self.stmts([('expr', e)] + rest, safe)
            if rest:
                # value of an inner block used as statement: treat like expr
                return self.stmts([('expr', e)] + rest, safe)
            if e[0] in ('if', 'match', 'block', 'iflet') and not self.is_pure(e):
                return self.control(e, [], safe, final=True)
            return self.leaf(e, safe)
        if k == 'expr':
            e = s[1]
            if e[0] in ('if', 'match', 'block', 'iflet'):
                return self.control(e, rest, safe, final=False)
            if e[0] == 'panic':
                return 'true' if False else self.leaf(e, safe)
            if e[0] == 'assert':
                c, t, ch = self.ex(e[1])
                body = self.stmts(rest, safe)
                if safe:
                    return self.guard(ch, 'if %s then\n%s\nelse false' % (c, body), safe)
                return 'if %s then\n%s\nelse %s' % (c, body, self.ret_other('RPanic', 'assert'))
            if e[0] == 'try':
                return self.bind_res(None, None, e[1], rest, safe)
            if e[0] == 'mcall':
                h = self.spec.get('stmt_calls', {})
                key = self.callee_key(e)
                if key in h:
                    return h[key](self, e, rest, safe)
            raise TranslateError("%s: expression statement unsupported: %s" % (self.fn['name'], e[0]))
        raise TranslateError("%s: statement kind %s" % (self.fn['name'], k))

    def is_stmt_call(self, e):
        try:
            return self.callee_key(e) in self.spec.get('stmt_calls', {})
        except TranslateError:
            return False

    def callee_key(self, e):
        recv = e[1]
        if recv[0] == 'path':
            return recv[1][-1] + '.' + e[2]
        return self.field_path(recv) + '.' + e[2]

    def guard(self, checks, code, safe):
        checks = [c for c in checks if c]
        if conj(checks) == 'true':
            return code
        if safe and checks:
            return 'if %s then\n%s\nelse false' % (conj(checks), code)
        return code

    def is_pure(self, e):
        """expression without returns / assignments / panics inside"""
        if e[0] == 'if':
            return e[3] is not None and self.pure_block(e[2]) and self.pure_block(e[3])
        if e[0] == 'match':
            return all(self.pure_block(b) for _, b in e[2]) and all(p[0] not in ('pctor',) for p, _ in e[2])
        if e[0] == 'block':
            return self.pure_block(e[1])
        if e[0] == 'iflet':
            return False
        return e[0] not in ('panic', 'assert', 'try')

    def pure_block(self, b):
        return len(b) == 1 and b[0][0] == 'final' and self.is_pure(b[0][1]) and b[0][1][0] not in ('call',) or \
            (len(b) == 1 and b[0][0] == 'final' and b[0][1][0] == 'call' and b[0][1][1][-1] not in ('Ok', 'Err', 'Some'))

    def leaf(self, e, safe):
        """function result"""
        if e is None:
            return 'true' if safe else self.ret_ok('tt')
        if e[0] == 'panic':
            return 'false' if safe else self.ret_other('RPanic', e[1].rstrip('!'))
        if e[0] == 'call' and e[1][-1] == 'Ok':
            if e[2] and e[2][0] == ('tuple', []):
                return 'true' if safe else self.ret_ok('tt')
            c, t, ch = self.ex(e[2][0])
            return conj(ch) if safe else self.ret_ok(c)
        if e[0] == 'call' and e[1][-1] == 'Err':
            a = e[2][0]
            name = a[1][-1] if a[0] in ('path', 'struct', 'call') else 'error'
            return 'true' if safe else self.ret_other('RErr', name)
        if e[0] == 'struct' or (e[0] == 'call' and e[1][-1] in self.spec.get('ctor_leaf', [])):
            raise TranslateError("%s: struct result unsupported" % self.fn['name'])
        if e[0] in ('if', 'match') and not self.is_pure(e):
            return self.control(e, [], safe, final=True)
        c, t, ch = self.ex(e)
        return conj(ch) if safe else self.ret_ok(c)

    def control(self, e, rest, safe, final):
        """if / match / block as a statement (or as the final expression): the continuation `rest` is
        pushed into every branch."""
        if e[0] == 'block':
            return self.stmts(self.as_stmts(e[1], final) + rest, safe)
        if e[0] == 'if':
            c, t, ch = self.ex(e[1])
            saved = dict(self.types)
            a = self.stmts(self.as_stmts(e[2], final) + rest, safe)
            self.types = dict(saved)
            b = self.stmts(self.as_stmts(e[3] or [], final) + rest, safe)
            self.types = saved
            return self.guard(ch, 'if %s then\n%s\nelse\n%s' % (c, indent(a), indent(b)), safe)
        if e[0] == 'match':
            sc, st, sch = self.ex(e[1])
            # bind scrutinee once
            v = '_m%d' % self.fresh
            self.fresh += 1
            code = None
            for pat, body in reversed(e[2]):
                saved = dict(self.types)
                pre = ''
                if pat[0] == 'pvar':
                    self.types[pat[1]] = st
                    pre = 'let %s := %s in\n' % (self.var(pat[1]), v)
                b = pre + self.stmts(self.as_stmts(body, final) + rest, safe)
                self.types = saved
                cond = self.pat_cond(pat, v)
                if cond is None:
                    code = b
                else:
                    if code is None:
                        # rustc proved exhaustiveness (e.g. all values of a 2-bit quantity it cannot see);
                        # an unmatched value would be a compile error, so the tail is unreachable
                        code = 'false' if safe else self.ret_other('RPanic', 'nonexhaustive') if self.is_res else None
                        if code is None:
                            raise TranslateError("%s: match needs a wildcard arm" % self.fn['name'])
                    code = 'if %s then\n%s\nelse %s' % (cond, indent(b), code if code.startswith('if ') else '\n' + indent(code))
            return self.guard(sch, 'let %s := %s in\n%s' % (v, sc, code), safe)
        raise TranslateError("%s: control %s unsupported" % (self.fn['name'], e[0]))

    def push_let(self, e, name, ty):
        def blk(b):
            if b is None:
                raise TranslateError("%s: let from if without else" % self.fn['name'])
            b = list(b)
            if not b or b[-1][0] != 'final':
                raise TranslateError("%s: let arm without value" % self.fn['name'])
            v = b[-1][1]
            if v[0] == 'panic':
                return b[:-1] + [('expr', v)]
            if v[0] in ('if', 'match') and not self.is_pure(v):
                return b[:-1] + [('expr', self.push_let(v, name, ty))]
            return b[:-1] + [('assign', ('path', [name]), v)]
        if e[0] == 'if':
            return ('if', e[1], blk(e[2]), blk(e[3]))
        return ('match', e[1], [(p, blk(b)) for p, b in e[2]])

    def as_stmts(self, block, final):
        """when the control expression is the function's final expression, branch values are results;
        otherwise a trailing value is discarded."""
        if final:
            return list(block)
        out = []
        for s in block:
            if s[0] == 'final' and s[1][0] == 'mcall' and self.is_stmt_call(s[1]):
                out.append(('expr', s[1]))
                continue
            if s[0] == 'final' and s[1][0] not in ('if', 'match', 'block', 'panic'):
                if s[1][0] in ('tuple',) and not s[1][1]:
                    continue
                raise TranslateError("%s: value of statement-position block discarded" % self.fn['name'])
            out.append(('expr', s[1]) if s[0] == 'final' else s)
        return out

    def bind_res(self, name, ty, e, rest, safe):
        """let name = <res-call>?;"""
        rc = self.spec.get('res_calls', {})
        if e[0] == 'mcall':
            key = e[2] if (e[1][0] == 'path' and e[1][1] == ['self']) else self.callee_key(e)
            args = e[3]
        elif e[0] == 'call':
            key = e[1][-1]
            args = e[2]
        else:
            raise TranslateError("%s: `?` on unsupported expression" % self.fn['name'])
        if key not in rc:
            raise TranslateError("%s: `?` on unknown callee %s" % (self.fn['name'], key))
        cn, rt, extra = rc[key]
        codes, chk = [], []
        for a in args:
            c, t, ch = self.ex(a)
            codes.append(paren(c))
            chk += ch
        call = ' '.join([cn] + extra + codes)
        v = self.var(name) if name else '_'
        if name:
            self.types[name] = norm_ty(ty) or rt
        body = self.stmts(rest, safe)
        if safe:
            code = 'match %s with\n| ROk %s =>\n%s\n| RErr _ => true\n| RPanic _ => false\nend' % (call, v, indent(body))
            code = 'if %s_safe %s then\n%s\nelse false' % (cn, ' '.join(extra + codes), code) if rc[key] and self.env['has_safe'].get(cn) else code
        else:
            code = 'match %s with\n| ROk %s =>\n%s\n| RErr e_ => RErr e_\n| RPanic e_ => RPanic e_\nend' % (call, v, indent(body))
        return self.guard(chk, code, safe)


COQ_KEYWORDS = {'end', 'in', 'at', 'as', 'fun', 'match', 'with', 'if', 'then', 'else', 'let', 'Type', 'Set', 'Prop',
                'exists', 'forall', 'fix', 'return', 'using', 'where', 'mod', 'type'}


def norm_ty(ty):
    if ty is None:
        return None
    ty = ty.strip()
    if ty in WIDTH or ty in SIGNED or ty == 'bool':
        return ty
    return ty


def paren(c):
    c = c.strip()
    if re.match(r"^[\w.']+$", c) or (c.startswith('(') and matching(c)):
        return c
    return '(' + c + ')'


def matching(c):
    d = 0
    for i, ch in enumerate(c):
        if ch == '(':
            d += 1
        elif ch == ')':
            d -= 1
            if d == 0 and i != len(c) - 1:
                return False
    return True


def conj(chks):
    def trivial(c):
        m = re.match(r"^\((\d+) (<\?|<=\?) (\d+)\)$", c)
        if not m:
            return False
        a, b = int(m.group(1)), int(m.group(3))
        return a < b if m.group(2) == '<?' else a <= b
    chks = [c for c in chks if c and c != 'true' and not trivial(c)]
    if not chks:
        return 'true'
    return '(' + ' && '.join(chks) + ')'


def indent(s):
    return '\n'.join('  ' + l for l in s.split('\n'))


# ----------------------------------------------------------------------------- driver

def coq_ty(t):
    if t in WIDTH or t in SIGNED:
        return 'Z'
    if t == 'bool':
        return 'bool'
    if t and re.match(r"&?\s*(mut\s*)?\[", t):
        return 'list Z'
    if t and t.startswith('Option'):
        return 'option Z'
    raise TranslateError('no Coq type for %r' % t)


def translate_fn(src_text, spec, env):
    toks = tokenize(src_text)
    fn = P(toks).parse_fn()
    out = []
    for safe in (False, True):
        tr = Tr(fn, spec, env)
        params = []
        for pn, pt in fn['params']:
            if pn == 'self':
                for path, (cv, ty) in spec.get('self_fields', {}).items():
                    if spec.get('self_params') is None or cv in spec['self_params']:
                        params.append((cv, ty))
                continue
            if pn in spec.get('drop_params', []):
                continue
            tr.types[pn] = norm_ty(pt.replace('& mut ', '&mut '))
            params.append((tr.var(pn), pt))
        for cv, ty in spec.get('extra_params', []):
            tr.types[cv] = ty
            params.append((cv, ty))
        body = tr.stmts(list(fn['body']), safe)
        nm = spec.get('coq_name', fn['name']) + ('_safe' if safe else '')
        ps = ' '.join('(%s : %s)' % (cv, coq_ty(ty.replace('& mut ', '').replace('&', '').strip())) for cv, ty in params)
        rty = 'bool' if safe else spec['coq_ret']
        out.append('Definition %s %s : %s :=\n%s.\n' % (nm, ps, rty, indent(body)))
    env['has_safe'][spec.get('coq_name', fn['name'])] = True
    return '\n'.join(out)


def const_value(src, name, env):
    item = find_item(src, r"^\s*(pub(\([a-z]+\))?\s+)?const\s+%s\s*:" % re.escape(name))
    if item is None:
        raise TranslateError("const %s not found" % name)
    m = re.match(r"\s*(?:pub(?:\([a-z]+\))?\s+)?const\s+\w+\s*:\s*([^=]+?)\s*=\s*(.*);\s*$", item, re.S)
    ty, rhs = m.group(1).strip(), m.group(2)
    toks = tokenize(rhs)
    e = P(toks).parse_expr()
    if e[0] == 'array' or (e[0] == 'path' and False):
        tr = Tr({'name': name}, {}, env)
        vals = [tr.ex(x)[0] for x in e[1]]
        mm = re.match(r"&?\s*\[\s*(\w+)\s*(?:;\s*(\d+)\s*)?\]", ty)
        if mm and mm.group(2) and int(mm.group(2)) != len(vals):
            raise TranslateError("const %s: declared length %s, %d elements" % (name, mm.group(2), len(vals)))
        return 'list Z', '[' + '; '.join(vals) + ']', ty
    tr = Tr({'name': name}, {}, env)
    # consts: typed by declaration
    c, t, ch = tr.ex(annotate(e, ty))
    return 'Z', c, ty


def annotate(e, ty):
    """give untyped literals inside a const initialiser the declared type"""
    if e[0] == 'num' and e[2] is None:
        return ('num', e[1], ty)
    if e[0] == 'bin':
        return ('bin', e[1], annotate(e[2], ty), annotate(e[3], ty))
    if e[0] == 'paren':
        return ('paren', annotate(e[1], ty))
    return e


def token_hash(text):
    toks = tokenize(text)
    h = hashlib.sha256(repr([(a, b, c) for a, b, c in toks]).encode()).hexdigest()[:16]
    return h


if __name__ == '__main__':
    sys.path.insert(0, os.path.dirname(os.path.abspath(__file__)))
    import rs2v_spec
    sys.exit(rs2v_spec.main(sys.argv[1:]))
