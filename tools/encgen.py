"""inputs and parses for the encoder-side checks (C02, C15, C16)"""


def literals(rng, n, style):
    if style == 'single':
        return bytes([rng.below(256)]) * n
    if style == 'two':
        a, b = rng.below(256), rng.below(256)
        return bytes(a if rng.below(8) else b for _ in range(n))
    if style == 'skew':
        base = rng.below(200)
        return bytes(base + min(rng.below(6), rng.below(6), rng.below(30)) for _ in range(n))
    if style == 'text':
        words = [b'the ', b'quick ', b'zstd ', b'frame ', b'block ', b'literal ', b'of ', b'and ', b'\n']
        out = bytearray()
        while len(out) < n:
            out += rng.choice(words)
        return bytes(out[:n])
    if style == 'wide':       # > 128 distinct symbols: weights need FSE compression or many bytes
        return bytes((rng.below(200) if rng.below(4) else rng.below(256)) for _ in range(n))
    return rng.bytes(n)


def gen_parse(rng, hist, window, target, style=None, ll_choices=None, ml_choices=None, far=False):
    """a block of about `target` bytes together with a valid parse: [(ll, off, ml)], trailing literals allowed.
    hist: bytes before the block (matches may reach back min(window, len(hist)+position))"""
    cur = bytearray()
    seqs = []
    style = style or rng.choice(['single', 'two', 'skew', 'text', 'wide', 'random'])
    ll_choices = ll_choices or [0, 0, 1, 2, 5, 16, 17, 40, 64, 300, 1100, 1025, 1024]
    ml_choices = ml_choices or [3, 3, 4, 5, 8, 34, 35, 36, 130, 131, 300]
    while len(cur) < target:
        ll = rng.choice(ll_choices)
        ll = min(ll, target - len(cur))
        lit = literals(rng, ll, style)
        avail = len(hist) + len(cur) + ll
        if avail == 0 or target - len(cur) - ll < 3 or rng.below(12) == 0:
            cur += lit
            if avail == 0 or target - len(cur) < 3:
                cur += literals(rng, target - len(cur), style)
            break
        cur += lit
        reach = min(window, avail)
        if far:
            off = reach - rng.below(min(4, reach))
        else:
            off = rng.choice([1, 2, 3, reach, rng.range(1, reach), rng.range(1, reach), min(reach, rng.range(1, 64))])
        off = max(1, min(off, reach))
        ml = min(rng.choice(ml_choices), target - len(cur))
        m = fast_copy(hist + bytes(cur), off, ml)
        cur += m
        seqs.append((ll, off, ml))
    return bytes(cur), seqs


def fast_copy(whole, off, ml):
    start = len(whole) - off
    if off >= ml:
        return bytes(whole[start:start + ml])
    pat = bytes(whole[start:])
    return (pat * (ml // off + 1))[:ml]


def block_spec(data, seqs, partial=False):
    return ('p' if partial else '') + (data.hex() or '-') + ':' + (';'.join('%d,%d,%d' % s for s in seqs) or '-')


def weak_skew(rng, n, p):
    """nearly incompressible: uniform bytes, a fraction p replaced by one of three frequent symbols"""
    thr = int(p * 1000000)
    return bytes((65 + rng.below(3)) if rng.below(1000000) < thr else rng.below(256) for _ in range(n))


def no_repeat_skewed(rng, n, k=64):
    """n bytes over k symbols with a skewed distribution and no repeated 5-gram (so a matcher with minimum match 5
    finds nothing and all n bytes become literals)"""
    base = rng.below(256 - k)
    out = bytearray(base + min(rng.below(k), rng.below(k)) for _ in range(n))
    seen = set()
    for i in range(n - 4):
        tries = 0
        while bytes(out[i:i + 5]) in seen and tries < 50:
            out[i + 4] = base + rng.below(k)
            tries += 1
        seen.add(bytes(out[i:i + 5]))
    return bytes(out)


def flat_then_flat(rng, k=200, times=6, first_len=131072, second_len=97000):
    """block 1 as in flat_then_skew (a flat histogram whose literals do not pay for a Huffman table, then long matches);
    block 2: the same values, again exactly equally frequent, in a fresh shuffle and many more of them -- its literals
    do pay, and its table has the same code lengths as the one block 1 would have used"""
    b1, _ = flat_then_skew(rng, k, times, first_len, 1)
    L = [v for v in range(k) for _ in range(second_len // k)]
    for i in range(len(L) - 1, 0, -1):
        j = rng.below(i + 1)
        L[i], L[j] = L[j], L[i]
    return b1, bytes(L)


def flat_then_skew(rng, k=200, times=6, first_len=131072, second_len=97000):
    """block 1: a flat histogram over k values (times each, shuffled) followed by repetitions of itself (long matches,
    the literals do not pay for a Huffman table); block 2: the same values, the highest ones much more frequent"""
    L = [v for v in range(k) for _ in range(times)]
    for i in range(len(L) - 1, 0, -1):
        j = rng.below(i + 1)
        L[i], L[j] = L[j], L[i]
    L = bytes(L)
    b1 = (L * (first_len // len(L) + 1))[:first_len]
    pool = [v for v in range(k) for _ in range(1)] + [v for v in range(k - 8, k) for _ in range(100)]
    b2 = bytes(pool[rng.below(len(pool))] for _ in range(second_len))
    return b1, b2
