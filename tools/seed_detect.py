#!/usr/bin/env python3
"""seed_detect.py [seed ...]: apply each confirmed seed to /repo, run the quick check(s) that should notice it, undo.
Writes detection results into the seed's meta.json.  Never leaves /repo modified."""
import sys, os, json, subprocess, time
V = os.path.dirname(os.path.dirname(os.path.abspath(__file__)))
SEEDS = os.path.join(V, 'seeded')
EXTRA = {'C12_A': ['C16', 'C02'], 'C02_A': ['C16', 'C15'], 'C02_B': ['C16', 'C15'], 'C15_A': ['C02', 'C16'], 'C15_B': ['C02', 'C16'], 'C16_A': ['C02'], 'C16_B': ['C02'], 'C06_B': ['C07', 'C10'], 'C10_B': ['C07', 'C06'], 'C01_B': ['C06', 'C14', 'C11'], 'C01_A': ['C01'], 'C12_B': ['C01', 'C14'],
         'C14_B': ['C01'], 'C07_A': ['C09'], 'C04_B': ['C06'], 'C04_A': ['C06'], 'C05_A': ['C05'], 'C13_B': ['C01'], 'C13_A': ['C16', 'C02'],
         'C03_A': ['C03'], 'C03_B': ['C07', 'C03'], 'C09_A': ['C07', 'C09'], 'C09_B': ['C09'], 'C08_A': ['C06', 'C08'], 'C08_B': ['C08', 'C02'],
         'C05_C': ['C06'], 'C08_C': ['C02', 'C18'], 'C09_C': ['C01', 'C14'], 'C16_C': ['C02', 'C15'], 'C17_C': ['C16'], 'C02_C': ['C08', 'C18'], 'C14_C': ['C05', 'C01'], 'C01_C': ['C07', 'C12'], 'C13_C': ['C02', 'C16', 'C15'], 'C12_C': ['C01', 'C16'],
         'C19_C': [], 'C06_C': ['C10', 'C07'], 'C10_C': ['C06'], 'C03_C': ['C09'], 'C04_C': ['C06', 'C01'], 'C07_C': ['C05', 'C06'], 'C11_C': ['C14', 'C01'], 'C15_C': ['C02', 'C16', 'C14'], 'C18_C': ['C06'], 'C20_C': [],
         'C13_D': ['C01'], 'C12_D': ['C02', 'C16'], 'C10_D': ['C06', 'C07'], 'C03_D': ['C07'], 'C02_E': ['C16', 'C13'], 'C08_D': ['C06']}
have = set(c['property_id'] for c in json.load(open(os.path.join(V, 'MANIFEST.json')))['checks'])
names = sys.argv[1:] or sorted(os.listdir(SEEDS))
for name in names:
    d = os.path.join(SEEDS, name)
    meta = json.load(open(os.path.join(d, 'meta.json')))
    checks = [meta['property']] + EXTRA.get(name, [])
    checks = [c for i, c in enumerate(checks) if (c in have or os.path.exists(os.path.join(V, 'tools', 'checks', c + '.py'))) and c not in checks[:i]]
    assert subprocess.run('git -C /repo status --porcelain --untracked-files=no', shell=True, stdout=subprocess.PIPE).stdout.strip() == b'', '/repo not clean'
    rc = subprocess.run('git -C /repo apply %s' % os.path.join(d, 'patch.diff'), shell=True).returncode
    results = {}
    try:
        if rc != 0:
            results['apply'] = 'failed'
        for c in checks:
            t0 = time.time()
            p = subprocess.run([sys.executable, os.path.join(V, 'tools', 'run_check.py'), c, '--tier', 'quick'], cwd=V, env=dict(os.environ, VERIF_EVIDENCE_DIR=os.path.join(V, '_build', 'seed_evidence')),
                               stdout=subprocess.PIPE, stderr=subprocess.STDOUT, timeout=3000)
            out = p.stdout.decode('utf-8', 'replace')
            vio = [l for l in out.split('\n') if l.startswith('VIOLATION')]
            what = ''
            if vio:
                rp = vio[0].split('replay=')[1].split()[0]
                try:
                    r = json.load(open(rp))
                    what = (r.get('what') or json.dumps(r.get('no_longer_checks'))[:300])[:300]
                except Exception:
                    pass
            results[c] = {'exit': p.returncode, 'violation_lines': len(vio), 'no_failing_input': any('no-failing-input-found' in l for l in vio),
                          'what': what, 'seconds': round(time.time() - t0)}
            print(name, c, results[c], flush=True)
    finally:
        subprocess.run('git -C /repo checkout -- .', shell=True)
    meta['detection'] = results
    meta['detected_by'] = [c for c, r in results.items() if isinstance(r, dict) and r['exit'] != 0]
    json.dump(meta, open(os.path.join(d, 'meta.json'), 'w'), indent=1)
# restore the harness / generated files for the clean tree
subprocess.run([sys.executable, os.path.join(V, 'tools', 'run_check.py'), '--setup'], cwd=V, stdout=subprocess.DEVNULL)
