#!/usr/bin/env python3
"""writes MANIFEST.json from the table below (kept in one place so it stays valid at all times)"""
import json, os, subprocess
V = os.path.dirname(os.path.dirname(os.path.abspath(__file__)))

CHECKS = {
 'C14': dict(
   technique='Coq proof over definitions regenerated from the Rust source (translator) + finite sweeps lifted by forallb; correspondence and exhaustive oracle sweep on the implementation',
   text='Machine-checked theorems (coq/props/C14.v, axiom-free) about the code tables, value<->code mappings, repeat-offset step, sequence-count writer/parser, block-header and window-descriptor arithmetic, stated over the definitions that tools/rs2v.py regenerates from /repo on every run; whole-domain statements (all 131072 literal lengths, all match lengths, all u32 offsets symbolically, all 98047 counts, all 2^24 block headers symbolically, all 256 window bytes). The same run drives the real functions through hooks over the whole domains against an independent transcription of RFC 8878 (failing-input search) and checks generated/hand models against the implementation.',
   note='Trusted: Coq kernel + vm_compute; rs2v.py/c2v.py translators (cross-checked by execution against the Rust hooks each run); hand models coq/model/Headers.v for the I/O-shaped readers (read_frame_header, read_block_header, literals parse_from_header) tied by correspondence only; libzstd C arrays as the reference tables.',
   design='8 C14'),
}

CHECKS['C04'] = dict(
   technique='Coq proof by invariant over arbitrary operation sequences and refinement to a byte-queue specification, for every chunk size; correspondence of states, contents and copy-call arguments with the real ring buffer',
   text='Machine-checked, axiom-free theorems (coq/props/C04.v) about a hand model of ringbuffer.rs in which every raw-pointer access is a checked memory operation (out of bounds, read of a never-written cell or overlapping copy_nonoverlapping = Fault): for every chunk size k>=1, every state satisfying the documented invariants 1-4 and every operand, each operation keeps the invariants, never faults (including the overshoot of the chunked copy) and acts on the represented bytes exactly like a byte queue; lifted by induction to all operation sequences. The unsafe extend_from_within_unchecked is proved under exactly its two documented requirements. Each run compares the model with the real RingBuffer (hooks) after every operation of PRNG-generated sequences: (cap, head, tail, len, free, contents) and the exact (src, src_len, dst, dst_len, copy_at_least) of every copy_bytes_overshooting call, in debug and release builds, with a VecDeque oracle inside the harness.',
   note='Trusted: Coq kernel; the hand model coq/model/RingBuffer.v (its agreement with the code is checked by execution only); a chunked copy is modelled by the number of cells it touches plus a bulk non-overlapping copy; allocation always succeeds; usize is unbounded nat. Real pointer provenance/aliasing and the allocator are outside the model (partial on that side).',
   design='8 C04')

MODEL_NOTE = 'Trusted: Coq kernel; the hand model of the decoder (coq/model/{BitIO,FseDec,HufDec,BlockDec,FrameDec,Headers}.v: bit readers at list-of-bits level, FSE/Huffman table builders, literals/sequences/execution, frame state machine and all entry points; the ring buffer is abstracted to a byte queue as licensed by C04), whose agreement with the code is checked by running the EXTRACTED model (ExtrOcamlBasic only) against the implementation on every run; generated arithmetic kernels (rs2v.py); the harness and its driver-program interpreters (mirrored in ocaml/driver.ml); libzstd as producer of valid frames; an independent XXH64 in Python. Allocation failure, real memory and I/O errors of the source are outside the model.'

CHECKS['C05'] = dict(
   technique='Coq proof of growth invariants through the decoder model (block -> block loop -> decode_blocks), correspondence of the extracted model with the implementation on hostile and ordinary frames',
   text='Axiom-free theorems (coq/props/C05.v) over the decoder model: for every input one block of any type appends at most 128 KiB or is rejected (literals announcing more, or sequences whose running output passes 128 KiB, are refused before copying -- the repaired finding F1); decode_blocks with a byte/block budget leaves at most what was held + budget + one block; reads while the frame is unfinished retain only the window; every accepted frame has a window within the configured limit (with C11). Each run decodes hostile frames (2^20-1 literal announcements, sequence blocks past 128 KiB) and ordinary multi-block frames stepwise through implementation and extracted model and checks the bound on the implementation\'s collectable amount.',
   note=MODEL_NOTE + ' Peak heap of the real allocator (ring growth policy, Vec capacities) is not measured: the bound is on buffered bytes.',
   design='8 C05')
CHECKS['C06'] = dict(
   technique='Coq proof (any sink state machine, any seam position, any sequence of drain calls) on the decoder model; random driver programs through implementation and extracted model; oracle = frame content',
   text='Axiom-free theorems (coq/props/C06.v): every drain path (collect, read, collect_to_writer with ANY sink behaviour and any position of the ring seam, and any interleaving of them) hands out a prefix of the buffered bytes exactly once and in order, feeds exactly those bytes to the hasher, changes nothing else, and keeps the window while the frame is unfinished; decoding only appends and counts exactly the source bytes it takes. Not yet a theorem: that block decoding is insensitive to having drained bytes older than the window (partial). Every run executes random driver programs over the public API (all strategies and budgets, partial/failing sinks with retry, slice-to-slice chunkings including the checksum arriving alone, streaming reads, fragmenting sources) on frames several windows long, through implementation and extracted model token by token, with the oracle that every program delivers exactly the content, consumes exactly the frame and reports the right checksums.',
   note=MODEL_NOTE, design='8 C06')
CHECKS['C08'] = dict(
   technique='Coq proof that the hasher receives exactly the delivered bytes (model records the hashed byte sequence); correspondence through an independent XXH64; compressor trailer checked over reuse histories',
   text='Axiom-free theorems (coq/props/C08.v): after initialisation nothing is hashed; decoding never feeds the hasher; any mix of drain calls with any sinks feeds it exactly the bytes handed out, in order. XXH64 itself is outside Coq: each run recomputes the checksum of the model\'s hashed bytes with an independent XXH64 and compares it with the implementation\'s calculated and stored checksums under drain-heavy programs on wrapped buffers, and checks the compressor\'s trailer for reused compressors and fragmented readers.',
   note=MODEL_NOTE + ' The streaming law of twox-hash (finish depends only on the concatenation of writes) is assumed and exercised, not proved.', design='8 C08')
CHECKS['C11'] = dict(
   technique='Coq proof over translator-generated window arithmetic/limit/clamp plus the reset model; exhaustive descriptor x limit x entry-path correspondence',
   text='Axiom-free theorems (coq/props/C11.v): a frame whose window exceeds min(limit, format maximum) is refused at initialisation with WindowSizeTooBig, one at or below is accepted, illegal windows are refused, the verdict is the same on first use and on reuse, the setter clamps, the default is 128 MiB, every descriptor byte means the RFC formula, and the reservation of the window never precedes the check (event order of the model). window_size, check_window_size and set_max_window_size are regenerated from the source each run. Each run tries window descriptors and single-segment sizes against limits at w-1, w, w+1, default, format maximum+-1 and u64::MAX through FrameDecoder (fresh, reused, after a failed frame), decode_all and StreamingDecoder, on implementation and model, against an independent oracle.',
   note=MODEL_NOTE + ' The "no allocation before the check" half is the statement order of the model, tied to the code by correspondence of outcomes only (an allocation hook is not installed).', design='8 C11')
CHECKS['C01'] = dict(
   technique='Correspondence of the extracted Coq decoder model with the implementation on valid frames from three producers, oracle = original data; component theorems from C04/C05/C12/C14',
   text='The whole decoder is an executable Coq model that is extracted and run against the implementation on every run over frames from libzstd (levels -5..22, window logs, flags, long-distance mode, flush patterns), from this crate\'s compressor and from a spec-directed builder (RLE/repeat tables, offset code 3 with zero literals, multi-byte sequence counts), with the original data, declared size and XXH64 as oracle. Theorems currently closed for this property are component-level (frame/block header meaning and code tables from C14, buffer refinement from C04, block invariants from C05); the end-to-end refinement decode = specification is NOT yet proved (partial).',
   note=MODEL_NOTE, category='translation_validation', design='8 C01')

CHECKS['C07'] = dict(
   technique='Coq proof that reset yields the same model state as first use (state equality, all decoding-relevant fields modelled); history/probe correspondence on reused vs fresh decoders',
   text='Axiom-free theorems (coq/props/C07.v): the field-by-field reset of the decoder scratch state equals a new scratch state, hence initialising a used decoder and a fresh decoder for the same source yields equal decoder states (or the same error) -- and every later observable is a function of that state. The hypothesis that tables keep their alphabet bound is an invariant of all model operations (not yet stated as a separate theorem). Whether the Rust reset really assigns every field is what each run checks by execution: 1-3 earlier frames (completed, abandoned after k blocks, truncated, corrupted, dictionary frames, the probe\'s own frame) followed by probes whose outcome depends on leaked state (suffix frames, frames with an inner block removed, RLE-then-repeat table frames, dictionary frames without their dictionary), on one decoder and on a fresh one, through implementation and extracted model.',
   note=MODEL_NOTE, design='8 C07')
CHECKS['C10'] = dict(
   technique='Coq proof of exact consumption (header reader, block loop) on the decoder model; truncation at every cut point, multi-frame and trailing-data correspondence with oracle',
   text='Axiom-free theorems (coq/props/C10.v): the frame-header reader consumes exactly the bytes of the fields the descriptor announces (5..18) and the block loop\'s byte counter equals the bytes taken from the source, for every input. Not yet theorems: that a strict prefix of a valid frame always ends in an error (partial) and the multi-frame loop. Each run truncates frames at every cut point (short frames) and at all structural boundaries +-1 (longer ones) and drives them four ways; appends trailing bytes; concatenates frames with skippable frames into exact, roomy and undersized targets, with garbage, truncated skippable frames and cut tails -- through implementation and extracted model, with the oracle "prefix => error, never finished, delivered bytes are a prefix; decode_all returns exactly the concatenation or an error and leaves the vector unchanged".',
   note=MODEL_NOTE, design='8 C10')
CHECKS['C12'] = dict(
   technique='Coq proof by complete sweeps over finite domains (predefined tables vs libzstd, state-range partition for all accuracy logs/probabilities, spreading permutation) over generated constants and the FSE decoder model; correspondence and independent RFC oracle for arbitrary distributions',
   text='Axiom-free theorems (coq/props/C12.v): the decoder\'s predefined LL/ML/OF tables, built by the model from the default distributions that the translator reads out of the source on this run, equal libzstd\'s published default tables (c2v.py regenerates those from the C source), and both copies of the distributions equal libzstd\'s; for every accuracy log 5..9 and every probability the state ranges of a symbol tile the state space and stay inside the table; the spreading step is a permutation. Not yet theorems (partial): the table for ALL distributions equals the specification\'s, the compressor\'s normalisation, the stream round trip -- these are checked on every run against an independent Python transcription of RFC 8878 4.1: decoding tables for random/boundary/malformed descriptions (implementation = extracted model = oracle), the compressor\'s description writer (parses back), its normalisation of histograms with production parameters (valid distribution, states agree with the decoding table), and the crate\'s round-trip helper.',
   note=MODEL_NOTE, design='8 C12')
CHECKS['C13'] = dict(
   technique='Coq proof by complete sweeps over all alphabet sizes 2..256 (shape validity, encoder/decoder code agreement) plus rejection lemmas, over models of the Huffman encoder shape and the decoder table builder; correspondence and independent RFC oracle',
   text='Axiom-free theorems (coq/props/C13.v): for every number of distinct symbols 2..256 the compressor\'s weight multiset is a complete prefix code of depth <= min(11, log2 n + 2); for every such size, with symbols ranked increasingly, decreasingly and (below 100) with unused symbols interleaved, the decoder\'s table built from the written weights has exactly the compressor\'s code lengths, is complete and maps every table index to the symbol whose code is its prefix; weights above 11 are rejected and only complete codes of depth <= 11 are accepted. Not yet theorems (partial): bit-level literal round trip in 1/4 streams, the <128-byte bound of FSE-compressed descriptions, the canonical table for every valid weight list. Each run compares weight shapes for all sizes (implementation vs model inside Coq), decoder tables for exhaustive small and random direct descriptions and for FSE-compressed descriptions written by the compressor (implementation = extracted model = independent RFC transcription), and literal round trips.',
   note=MODEL_NOTE, design='8 C13')

CHECKS['C03'] = dict(
   technique='Coq proofs of the memory-safety / range invariants that indexing relies on (window operations for all sequences and chunk sizes, FSE state ranges, block growth, offset history) on the decoder model; malformed-input correspondence of the extracted model with debug and release builds, oracle = no panic, no timeout, decoder reusable',
   text='Axiom-free theorems (coq/props/C03.v): no operation sequence on the output window faults (all chunk sizes), FSE transitions stay inside the table for every accuracy log and probability, sequence execution keeps the buffer and offset-history invariants for every input, the repeat-offset step never underflows. The overall statement "the model never returns a panic value for any byte string" is NOT yet a theorem (partial); each run therefore pushes structure-aware corruptions of valid frames (14 mutation kinds aimed at block headers, literal headers, jump tables, sequence headers, bitstream tails, descriptor bytes), random byte strings and corrupted dictionaries through eight entry-point programs on debug and release builds of the implementation and on the extracted model: outcome classes must agree, nothing may panic or exceed a deadline, and the same decoder must decode a valid frame afterwards.',
   note=MODEL_NOTE + ' Memory safety of the real unsafe code is argued through the C04 model, not on machine code; hangs are detected by a deadline, not proved absent.', design='8 C03')
CHECKS['C09'] = dict(
   technique='Coq proof that matches into the dictionary are the LZ77 copy on dictionary++output (all boundary alignments, unbounded), that sequence execution with a dictionary equals execution with the content as earlier output, plus reset/selection theorems; correspondence with trained and hand-built dictionaries, oracle = original data, libzstd, RFC execution',
   text='Axiom-free theorems (coq/props/C09.v): the chunked copy equals the byte-wise LZ77 copy for every length and offset; DecodeBuffer::repeat with a dictionary yields exactly the LZ77 copy on "dictionary content followed by output" for every alignment of the match with the boundary, and whole sequence sections behave as if the content were earlier output; offsets beyond dictionary plus output are rejected and the dictionary is unreachable once the output passed the window; a frame naming an unregistered dictionary is refused for every decoder history; with the dictionary registered the frame starts from its tables, repeat offsets and content; the reset after a dictionary frame equals a new decoder. Each run decodes libzstd frames made with libzstd-trained dictionaries (ids present or absent+forced, three schedules) and hand-built dictionaries with frames reaching every boundary alignment through implementation and extracted model, against the original data, libzstd given the same dictionary and an RFC execution on content++output; missing/wrong dictionaries must be refused; histories mixing dictionaries and plain frames must behave per frame as on a new decoder.',
   note=MODEL_NOTE + ' libzstd accepts offsets that reach into the header part of a dictionary (its virtual start is the whole dictionary buffer); for must-reject frames the oracle is the RFC execution, not libzstd.', design='8 C09')

NOT_YET = {}

def main():
    props = [json.loads(l) for l in open(os.path.join(V, 'properties.jsonl'))]
    commits = subprocess.run(['git', '-C', '/repo', 'log', '--format=%h %s'], stdout=subprocess.PIPE).stdout.decode().strip().split('\n')
    hooks = [c.split()[0] for c in commits if c.split(' ', 1)[1].startswith('verif hooks')]
    m = {
      'version': 1,
      'setup_cmd': 'python3 tools/run_check.py --setup',
      'hooks': {'guard': 'ruzstd_verif',
                'enable': 'RUSTFLAGS="--cfg ruzstd_verif" (set in harness/.cargo/config.toml; the harness crate depends on /repo/ruzstd by path with feature fuzz_exports)',
                'baseline_off_cmd': 'cd /repo && cargo test --workspace --no-fail-fast --offline',
                'source_commits': hooks, 'add_only': True},
      'engines': [{'name': 'coq-proofs', 'path': 'coq/', 'serves_properties': sorted(CHECKS), 'kind_free_text': 'Coq 8.16.1 development: lib (prelude, sweeps, bits), gen (translator output), model (hand models), proofs, props'},
                  {'name': 'rs2v', 'path': 'tools/rs2v.py', 'serves_properties': ['C14', 'C11'], 'kind_free_text': 'Rust-subset to Gallina translator, re-run on every check'},
                  {'name': 'zh', 'path': 'harness/', 'serves_properties': sorted(CHECKS), 'kind_free_text': 'Rust harness built against /repo with --cfg ruzstd_verif; one canonical result line per case'}],
      'checks': [], 'not_applicable': [],
      'notes': 'All checks: python3 tools/run_check.py <id> --tier quick|thorough. See DESIGN.md.'}
    for p in props:
        pid = p['id']
        if pid in CHECKS:
            c = CHECKS[pid]
            m['checks'].append({'property_id': pid,
                                'quick_cmd': 'python3 tools/run_check.py %s --tier quick' % pid,
                                'thorough_cmd': 'python3 tools/run_check.py %s --tier thorough' % pid,
                                'evidence_file': 'evidence/%s.json' % pid,
                                'replay_cmd_template': 'python3 tools/replay.py {path}',
                                'engine': 'coq-proofs',
                                'level_claimed': {'category': c.get('category', 'proof'), 'text': c['text'], 'design_ref': c['design']},
                                'level_note': c['note'], 'technique': c['technique']})
        else:
            m['not_applicable'].append({'property_id': pid, 'reason': NOT_YET.get(pid, 'not claimed yet: model and theorems for this property are still being built (see DESIGN.md section 8); no check is registered rather than a weaker technique')})
    json.dump(m, open(os.path.join(V, 'MANIFEST.json'), 'w'), indent=1)
    print('MANIFEST.json: %d checks, %d not claimed' % (len(m['checks']), len(m['not_applicable'])))

if __name__ == '__main__':
    main()
