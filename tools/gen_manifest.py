#!/usr/bin/env python3
"""writes MANIFEST.json from the table below (kept in one place so it stays valid at all times)"""
import json, os, subprocess
V = os.path.dirname(os.path.dirname(os.path.abspath(__file__)))

CHECKS = {
 'C14': dict(
   technique='Coq proof over definitions regenerated from the Rust source (translator) + finite sweeps lifted by forallb; correspondence and exhaustive oracle sweep on the implementation',
   text='Machine-checked theorems (coq/props/C14.v, axiom-free) about the code tables, value<->code mappings, repeat-offset step, sequence-count writer/parser, block-header and window-descriptor arithmetic, stated over the definitions that tools/rs2v.py regenerates from /repo on every run; whole-domain statements (all 131072 literal lengths, all match lengths, all u32 offsets symbolically, all 98047 counts, all 2^24 block headers symbolically, all 256 window bytes). The same run drives the real functions through hooks over the whole domains against an independent transcription of RFC 8878 (failing-input search) and checks generated/hand models against the implementation.',
   note='Trusted: Coq kernel + vm_compute; rs2v.py/c2v.py translators (cross-checked by execution against the Rust hooks each run); hand models coq/model/Headers.v for the I/O-shaped readers (read_frame_header, read_block_header, literals parse_from_header) tied by correspondence only; libzstd C arrays as the reference tables.',
   design='8 C14'),
}

CHECKS['C04'] = dict(
   technique='Coq proof by invariant over arbitrary operation sequences and refinement to a byte-queue specification, for every chunk size; correspondence of states, contents and copy-call arguments with the real ring buffer',
   text='Machine-checked, axiom-free theorems (coq/props/C04.v) about a hand model of ringbuffer.rs in which every raw-pointer access is a checked memory operation (out of bounds, read of a never-written cell or overlapping copy_nonoverlapping = Fault): for every chunk size k>=1, every state satisfying the documented invariants 1-4 and every operand, each operation keeps the invariants, never faults (including the overshoot of the chunked copy) and acts on the represented bytes exactly like a byte queue; lifted by induction to all operation sequences. The unsafe extend_from_within_unchecked is proved under exactly its two documented requirements. Each run compares the model with the real RingBuffer (hooks) after every operation of PRNG-generated sequences: (cap, head, tail, len, free, contents) and the exact (src, src_len, dst, dst_len, copy_at_least) of every copy_bytes_overshooting call, in debug and release builds, with a VecDeque oracle inside the harness.',
   note='Trusted: Coq kernel; the hand model coq/model/RingBuffer.v (its agreement with the code is checked by execution only); a chunked copy is modelled by the number of cells it touches plus a bulk non-overlapping copy; allocation always succeeds; usize is unbounded nat. Real pointer provenance/aliasing and the allocator are outside the model (partial on that side).',
   design='8 C04')

NOT_YET = {}

def main():
    props = [json.loads(l) for l in open(os.path.join(V, 'properties.jsonl'))]
    commits = subprocess.run(['git', '-C', '/repo', 'log', '--format=%h %s'], stdout=subprocess.PIPE).stdout.decode().strip().split('\n')
    hooks = [c.split()[0] for c in commits if c.split(' ', 1)[1].startswith('verif hooks')]
    m = {
      'version': 1,
      'setup_cmd': 'python3 tools/run_check.py --setup',
      'hooks': {'guard': 'ruzstd_verif',
                'enable': 'RUSTFLAGS="--cfg ruzstd_verif" (set in harness/.cargo/config.toml; the harness crate depends on /repo/ruzstd by path with feature fuzz_exports)',
                'baseline_off_cmd': 'cd /repo && cargo test --workspace --no-fail-fast --offline',
                'source_commits': hooks, 'add_only': True},
      'engines': [{'name': 'coq-proofs', 'path': 'coq/', 'serves_properties': sorted(CHECKS), 'kind_free_text': 'Coq 8.16.1 development: lib (prelude, sweeps, bits), gen (translator output), model (hand models), proofs, props'},
                  {'name': 'rs2v', 'path': 'tools/rs2v.py', 'serves_properties': ['C14', 'C11'], 'kind_free_text': 'Rust-subset to Gallina translator, re-run on every check'},
                  {'name': 'zh', 'path': 'harness/', 'serves_properties': sorted(CHECKS), 'kind_free_text': 'Rust harness built against /repo with --cfg ruzstd_verif; one canonical result line per case'}],
      'checks': [], 'not_applicable': [],
      'notes': 'All checks: python3 tools/run_check.py <id> --tier quick|thorough. See DESIGN.md.'}
    for p in props:
        pid = p['id']
        if pid in CHECKS:
            c = CHECKS[pid]
            m['checks'].append({'property_id': pid,
                                'quick_cmd': 'python3 tools/run_check.py %s --tier quick' % pid,
                                'thorough_cmd': 'python3 tools/run_check.py %s --tier thorough' % pid,
                                'evidence_file': 'evidence/%s.json' % pid,
                                'replay_cmd_template': 'python3 tools/replay.py {path}',
                                'engine': 'coq-proofs',
                                'level_claimed': {'category': c.get('category', 'proof'), 'text': c['text'], 'design_ref': c['design']},
                                'level_note': c['note'], 'technique': c['technique']})
        else:
            m['not_applicable'].append({'property_id': pid, 'reason': NOT_YET.get(pid, 'not claimed yet: model and theorems for this property are still being built (see DESIGN.md section 8); no check is registered rather than a weaker technique')})
    json.dump(m, open(os.path.join(V, 'MANIFEST.json'), 'w'), indent=1)
    print('MANIFEST.json: %d checks, %d not claimed' % (len(m['checks']), len(m['not_applicable'])))

if __name__ == '__main__':
    main()
