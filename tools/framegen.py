"""Content and frame generators shared by the decoder-side checks.  Every random choice comes from one SplitMix64
stream so that a disagreement replays exactly."""
import os, sys
from vlib import *

WORDS = None


def gen_content(rng, size_class=None):
    """returns (bytes, class name)"""
    global WORDS
    if WORDS is None:
        w = SplitMix64(12345)
        WORDS = [bytes(97 + w.below(26) for _ in range(2 + w.below(8))) for _ in range(400)]
    if size_class is None:
        r = rng.below(100)
        size_class = 'tiny' if r < 25 else 'small' if r < 65 else 'medium' if r < 96 else 'large'
    if size_class == 'tiny':
        n = rng.choice([0, 1, 2, 3, 5, 8, 16, 31, 32, 33, 64, 100, 200])
    elif size_class == 'small':
        n = rng.choice([500, 1000, 1023, 1024, 1025, 2000, 4096, rng.range(300, 6000)])
    elif size_class == 'medium':
        n = rng.choice([16383, 16384, 16385, 30000, 65536, rng.range(6000, 70000)])
    else:
        n = rng.choice([131071, 131072, 131073, 200000, 262144, 262145, rng.range(70000, 300000)])
    kind = rng.choice(['run', 'periodic', 'text', 'random', 'skewed', 'mixture', 'text', 'periodic', 'sparse'])
    if kind == 'run':
        data = bytes([rng.below(256)]) * n
    elif kind == 'periodic':
        p = rng.choice([1, 2, 3, 4, 5, 7, 8, 16, 100, 255, 256, 1000, rng.range(1, 3000)])
        pat = rng.bytes(p)
        data = (pat * (n // p + 1))[:n]
    elif kind == 'text':
        out = bytearray()
        while len(out) < n:
            out += rng.choice(WORDS) + (b' ' if rng.below(8) else b'\n')
        data = bytes(out[:n])
    elif kind == 'random':
        data = rng.bytes(n)
    elif kind == 'skewed':
        k = rng.choice([2, 3, 5, 16, 17, 40, 100, 200])
        alpha = [rng.below(256) for _ in range(k)]
        raw = rng.bytes(n)
        data = bytes(alpha[min(k - 1, (b * b) // (65536 // k + 1))] for b in raw)
    elif kind == 'sparse':
        raw = bytearray(n)
        for _ in range(n // 50):
            raw[rng.below(max(n, 1))] = rng.below(256)
        data = bytes(raw)
    else:
        out = bytearray()
        while len(out) < n:
            sub, _ = gen_content(rng, 'tiny' if rng.below(2) else 'small')
            out += sub
            if out and rng.below(3) == 0:
                st = rng.below(len(out))
                ln = rng.range(3, 400)
                out += out[st:st + ln]
        data = bytes(out[:n])
    return data, '%s/%s' % (size_class, kind)


LEVELS = [-5, -1, 1, 2, 3, 4, 5, 7, 9, 12, 15, 19, 22]


def libzstd_params(rng, n):
    level = rng.choice(LEVELS)
    if n > 100000 and level > 12:
        level = rng.choice([1, 3, 5])
    wlog = rng.choice([0, 0, 0, 10, 11, 12, 14, 17, 20, 23])
    ck = rng.below(2)
    cs = rng.below(2)
    ldm = 1 if rng.below(8) == 0 else 0
    flush = 0
    if rng.below(4) == 0 and n > 0:
        flush = rng.choice([1, 7, 100, 1000, 5000, 40000])
        if n // flush > 300:
            flush = n // 300 + 1
    return dict(level=level, wlog=wlog, checksum=ck, content_size=cs, ldm=ldm, flush=flush)


def zenc_line(data, p, dict_hex=None, nodictid=False):
    parts = ['zenc', str(p['level']), str(p['wlog']), str(p['checksum']), str(p['content_size']), str(p['ldm']),
             data.hex() if data else '-', dict_hex or '-', str(p['flush'])]
    if nodictid:
        parts.append('nodictid')
    return ' '.join(parts)


def make_libzstd_frames(rng, count, size_class=None):
    """-> list of dicts {frame, content, params, cls}"""
    items = []
    lines = []
    for _ in range(count):
        data, cls = gen_content(rng, size_class)
        p = libzstd_params(rng, len(data))
        items.append({'content': data, 'params': p, 'cls': cls, 'producer': 'libzstd'})
        lines.append(zenc_line(data, p))
    res = zh_par('codec', lines)
    out = []
    for it, r in zip(items, res):
        w = r.split()
        if w and w[0] == 'ok':
            it['frame'] = bytes.fromhex(w[1]) if w[1] != '-' else b''
            out.append(it)
    return out


def make_ruzstd_frames(rng, count, size_class=None):
    items, lines = [], []
    for _ in range(count):
        data, cls = gen_content(rng, size_class)
        level = rng.choice([0, 1, 1, 1])
        frag = rng.choice([0, 0, 1, 2, 7, 4095, 131071, 131072, 131073])
        if frag in (1, 2, 7) and len(data) > 20000:
            frag = 4095
        items.append({'content': data, 'params': {'level': level, 'frag': frag}, 'cls': cls, 'producer': 'ruzstd'})
        lines.append('renc %d %s %d' % (level, data.hex() if data else '-', frag))
    res = zh_par('codec', lines)
    out = []
    for it, r in zip(items, res):
        w = r.split()
        if w and w[0] == 'ok':
            it['frame'] = bytes.fromhex(w[1]) if w[1] != '-' else b''
            out.append(it)
        else:
            it['frame'] = None
            it['compress_result'] = r
            out.append(it)
    return out


# ------------------------------------------------------------------ frame anatomy (for features / mutation / synthesis)

def parse_frame_header(f):
    """-> dict or None"""
    if len(f) < 5 or f[:4] != b'\x28\xb5\x2f\xfd':
        return None
    d = f[4]
    p = 5
    ss = (d >> 5) & 1
    wd = None
    if not ss:
        if len(f) < p + 1: return None
        wd = f[p]; p += 1
    dl = [0, 1, 2, 4][d & 3]
    did = int.from_bytes(f[p:p + dl], 'little'); p += dl
    fl = [1 if ss else 0, 2, 4, 8][d >> 6]
    fcs = int.from_bytes(f[p:p + fl], 'little') + (256 if fl == 2 else 0); p += fl
    if p > len(f): return None
    window = None
    if wd is not None:
        base = 1 << (10 + (wd >> 3))
        window = base + (base // 8) * (wd & 7)
    return {'desc': d, 'wd': wd, 'dict_id': did, 'fcs': fcs if fl else None, 'hdr_len': p, 'checksum': (d >> 2) & 1,
            'single': ss, 'window': window}


def walk_blocks(f):
    """-> (header, [(offset, last, type, size, body_len)], end_offset) or None when malformed"""
    h = parse_frame_header(f)
    if h is None:
        return None
    p = h['hdr_len']
    blocks = []
    while True:
        if p + 3 > len(f): return None
        v = int.from_bytes(f[p:p + 3], 'little')
        last, ty, size = v & 1, (v >> 1) & 3, v >> 3
        body = 1 if ty == 1 else size
        if ty == 3 or p + 3 + body > len(f): return None
        blocks.append((p, last, ty, size, body))
        p += 3 + body
        if last: break
    if h['checksum']:
        if p + 4 > len(f): return None
        p += 4
    return h, blocks, p


def frame_features(f):
    """coarse feature set of a frame, for coverage accounting"""
    w = walk_blocks(f)
    feats = set()
    if not w:
        return feats
    h, blocks, end = w
    feats.add('blocks:%s' % ('1' if len(blocks) == 1 else '2-4' if len(blocks) < 5 else '5+'))
    if h['checksum']: feats.add('checksum')
    if h['single']: feats.add('single-segment')
    if h['fcs'] is not None: feats.add('fcs')
    for (p, last, ty, size, body) in blocks:
        feats.add('block:' + ['raw', 'rle', 'compressed'][ty])
        if ty == 2 and body >= 1:
            b0 = f[p + 3]
            lt, sf = b0 & 3, (b0 >> 2) & 3
            feats.add('lit:' + ['raw', 'rle', 'huf', 'treeless'][lt])
            if lt >= 2:
                feats.add('lit-streams:%d' % (1 if sf == 0 else 4))
                feats.add('lit-sizefmt:%d' % sf)
                # sequence header position
                need = [3, 3, 4, 5][sf]
                if body >= need:
                    v = int.from_bytes(f[p + 3:p + 3 + need], 'little') >> 4
                    bits = [10, 10, 14, 18][sf]
                    comp = (v >> bits) & ((1 << bits) - 1)
                    q = p + 3 + need + comp
                else:
                    q = None
            else:
                need = [1, 2, 1, 3][sf]
                v = int.from_bytes(f[p + 3:p + 3 + need], 'little')
                regen = v >> 3 if need == 1 else v >> 4
                q = p + 3 + need + (1 if lt == 1 else regen)
            if q is not None and q < p + 3 + body:
                s0 = f[q]
                if s0 == 0:
                    feats.add('seq:none')
                else:
                    hl = 1 if s0 < 128 else 2 if s0 < 255 else 3
                    feats.add('seq:hdr%d' % hl)
                    if q + hl < p + 3 + body:
                        m = f[q + hl]
                        for nm, sh in (('ll', 6), ('of', 4), ('ml', 2)):
                            feats.add('%s-mode:%s' % (nm, ['predef', 'rle', 'fse', 'repeat'][(m >> sh) & 3]))
    return feats


# ------------------------------------------------------------------ hand-built frames (format features no
# compressor emits on demand); only constructs that need no entropy coder

def block_header(last, ty, size):
    return ((size << 3) | (ty << 1) | last).to_bytes(3, 'little')


def frame_header_bytes(window_log=None, fcs=None, checksum=0, single=False, dict_id=0):
    d = 0
    body = b''
    if dict_id:
        n = 1 if dict_id < 256 else 2 if dict_id < 65536 else 4
        d |= {1: 1, 2: 2, 4: 3}[n]
        did = dict_id.to_bytes(n, 'little')
    else:
        did = b''
    if checksum: d |= 4
    if single:
        d |= 32
        assert fcs is not None
    else:
        body += bytes([(window_log - 10) << 3])
    body += did
    if fcs is not None:
        if single and fcs < 256:
            fl, code = 1, 0
        elif 256 <= fcs < 65536 + 256:
            fl, code = 2, 1
        elif fcs < 2 ** 32:
            fl, code = 4, 2
        else:
            fl, code = 8, 3
        d |= code << 6
        body += (fcs - 256 if fl == 2 else fcs).to_bytes(fl, 'little')
    return b'\x28\xb5\x2f\xfd' + bytes([d]) + body


def raw_literals_header(n, fmt=None):
    """raw literals section header; fmt in {1, 2, 3} bytes"""
    if fmt is None:
        fmt = 1 if n < 32 else 2 if n < 4096 else 3
    if fmt == 1: return bytes([(n << 3) | 0])
    if fmt == 2: return ((n << 4) | 0b0100).to_bytes(2, 'little')
    return ((n << 4) | 0b1100).to_bytes(3, 'little')


def rle_literals_header(n, fmt=None):
    if fmt is None:
        fmt = 1 if n < 32 else 2 if n < 4096 else 3
    if fmt == 1: return bytes([(n << 3) | 1])
    if fmt == 2: return ((n << 4) | 0b0101).to_bytes(2, 'little')
    return ((n << 4) | 0b1101).to_bytes(3, 'little')


def make_simple_synthetic(rng, count):
    """frames from raw / RLE blocks and compressed blocks that hold raw or RLE literals and no sequences"""
    from xxh64 import xxh64
    out = []
    for _ in range(count):
        nblocks = rng.choice([1, 1, 2, 3, 5])
        content = bytearray()
        body = b''
        for bi in range(nblocks):
            last = 1 if bi == nblocks - 1 else 0
            kind = rng.choice(['raw', 'rle', 'c-rawlit', 'c-rlelit'])
            n = rng.choice([0, 1, 2, 31, 32, 100, 4095, 4096, 5000, rng.range(0, 3000)])
            if kind == 'raw':
                d = rng.bytes(n)
                body += block_header(last, 0, n) + d
                content += d
            elif kind == 'rle':
                b = rng.below(256)
                body += block_header(last, 1, n) + bytes([b])
                content += bytes([b]) * n
            elif kind == 'c-rawlit':
                d = rng.bytes(n)
                fmt = rng.choice([None, 2 if n < 4096 else None, 3])
                blk = raw_literals_header(n, fmt) + d + b'\x00'
                body += block_header(last, 2, len(blk)) + blk
                content += d
            else:
                b = rng.below(256)
                fmt = rng.choice([None, 2 if n < 4096 else None, 3])
                blk = rle_literals_header(n, fmt) + bytes([b]) + b'\x00'
                body += block_header(last, 2, len(blk)) + blk
                content += bytes([b]) * n
        ck = rng.below(2)
        single = rng.below(3) == 0
        fcs = len(content) if (single or rng.below(2)) else None
        hdr = frame_header_bytes(window_log=rng.choice([10, 11, 17, 20]), fcs=fcs, checksum=ck, single=single)
        f = hdr + body
        if ck:
            f += (xxh64(bytes(content)) & 0xFFFFFFFF).to_bytes(4, 'little')
        out.append({'frame': f, 'content': bytes(content), 'params': {}, 'cls': 'synthetic-simple', 'producer': 'synthetic'})
    return out
