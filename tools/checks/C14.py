"""C14 -- sequence codes, repeat-offset rules and section headers match the specification.

proof      : coq/props/C14.v over coq/gen/Generated.v (regenerated from /repo on this run) and RefTables.v (libzstd)
tie check  : generated/hand-model functions vs the Rust hooks on boundary + random arguments (inside Coq)
search     : the Rust functions against an independent Python transcription of the RFC over the *whole* domains
"""
import os, sys, re
from vlib import *
import c2v

MODES = 0xE4


def ref_tables():
    Z = c2v.zdir()
    internal = open(os.path.join(Z, 'common/zstd_internal.h')).read()
    dint = open(os.path.join(Z, 'decompress/zstd_decompress_internal.h')).read()
    t = {}
    for nm, src in [('LL_base', dint), ('ML_base', dint), ('LL_bits', internal), ('ML_bits', internal)]:
        t[nm] = c2v.ints(c2v.c_array(src, nm))
    return t


def spec_offhist(ov, ll, h):
    h1, h2, h3 = h
    if ll > 0:
        if ov == 1: return h1, [h1, h2, h3]
        if ov == 2: return h2, [h2, h1, h3]
        if ov == 3: return h3, [h3, h1, h2]
        return ov - 3, [ov - 3, h1, h2]
    if ov == 1: return h2, [h2, h1, h3]
    if ov == 2: return h3, [h3, h1, h2]
    if ov == 3: return max(h1 - 1, 0), [max(h1 - 1, 0), h1, h2]
    return ov - 3, [ov - 3, h1, h2]


def spec_seqhdr(b):
    """RFC 8878 3.1.1.3.2.1 -> (used, count, modes>>2 or -1) or None"""
    if not b: return None
    if b[0] == 0: return (1, 0, -1)
    if b[0] < 128:
        return (2, b[0], b[1] >> 2) if len(b) >= 2 else None
    if b[0] < 255:
        if len(b) < 2: return None
        n = ((b[0] - 128) << 8) + b[1]
        if n == 0: return (2, 0, -1)
        return (3, n, b[2] >> 2) if len(b) >= 3 else None
    return (4, b[1] + (b[2] << 8) + 0x7F00, b[3] >> 2) if len(b) >= 4 else None


def spec_seqnum_bytes(n):
    if n < 128: return [n]
    if n < 0x7F00: return [(n >> 8) + 128, n & 255]
    return [255, (n - 0x7F00) & 255, (n - 0x7F00) >> 8]


def spec_blkhdr(b0, b1, b2):
    v = b0 | b1 << 8 | b2 << 16
    last, ty, size = v & 1, (v >> 1) & 3, v >> 3
    if ty == 3 or size > 131072: return None
    return [last, ty, size if ty in (0, 1) else 0, 1 if ty == 1 else size, 3]


def spec_window(wd):
    e, m = wd >> 3, wd & 7
    base = 1 << (10 + e)
    return base + (base // 8) * m


def spec_framehdr(b):
    """-> ('ok', [n, desc, window or -1, dict or -1, fcs, checksum]) | ('skip',[magic,len]) | ('err',)"""
    if len(b) < 4: return ('err',)
    magic = int.from_bytes(bytes(b[:4]), 'little')
    if 0x184D2A50 <= magic <= 0x184D2A5F:
        if len(b) < 8: return ('err',)
        return ('skip', [magic, int.from_bytes(bytes(b[4:8]), 'little')])
    if magic != 0xFD2FB528 or len(b) < 5: return ('err',)
    d = b[4]
    p = 5
    ss = (d >> 5) & 1
    wd = 0
    if not ss:
        if len(b) < p + 1: return ('err',)
        wd = b[p]; p += 1
    dl = [0, 1, 2, 4][d & 3]
    if len(b) < p + dl: return ('err',)
    did = int.from_bytes(bytes(b[p:p + dl]), 'little'); p += dl
    fl = [1 if ss else 0, 2, 4, 8][d >> 6]
    if len(b) < p + fl: return ('err',)
    fcs = int.from_bytes(bytes(b[p:p + fl]), 'little'); p += fl
    if fl == 2: fcs += 256
    w = fcs if ss else spec_window(wd)
    return ('ok', [p, d, w, did if did else -1, fcs, (d >> 2) & 1])


def spec_lithdr(b):
    """RFC 8878 3.1.1.3.1.1 -> [used, type, regen, comp or -1, streams or -1] or None (not enough bytes)"""
    if not b: return None
    t, sf = b[0] & 3, (b[0] >> 2) & 3
    if t in (0, 1):
        need = [1, 2, 1, 3][sf]
        if len(b) < need: return None
        v = int.from_bytes(bytes(b[:need]), 'little')
        regen = v >> 3 if need == 1 else v >> 4
        return [need, t, regen, -1, -1]
    need = [3, 3, 4, 5][sf]
    if len(b) < need: return None
    v = int.from_bytes(bytes(b[:need]), 'little') >> 4
    bits = [10, 10, 14, 18][sf]
    return [need, t, v & ((1 << bits) - 1), (v >> bits) & ((1 << bits) - 1), 1 if sf == 0 else 4]


def hexs(b):
    return bytes(b).hex() if b else '-'


def run(chk):
    rng = SplitMix64(chk.seed)
    thorough = chk.tier == 'thorough'

    # ---- Tie 1 + proof
    ok, msg = regen()
    chk.log(msg)
    if not ok:
        chk.tie_broken('translator', msg)
    else:
        chk.prove('props/C14.v', ['model/GenGlue.vo'])

    okh, hlog = build_harness(('debug',))
    if not okh:
        chk.tie_broken('harness-build', hlog[-600:])
        return

    T = ref_tables()

    # ---- the implementation against the independent oracle, whole domains (this is also the failing-input search)
    def direct(comp, lines, expect, kind='ints', describe=None):
        rc, res, err = zh('pure', lines, 'debug')
        if len(res) != len(lines):
            chk.tie_broken('harness:' + comp, 'harness returned %d lines for %d cases: %s' % (len(res), len(lines), err[-200:]))
            return []
        canon = [parse_canon(r, kind) for r in res]
        bad = 0
        for ln, c, e in zip(lines, canon, expect):
            if e is not None and c != e:
                bad += 1
                if bad <= 3:
                    chk.violation('%s: implementation gives %s, specification says %s' % (ln, c, e),
                                  {'component': comp, 'input': ln, 'got': list(c), 'expected': list(e),
                                   'how': 'echo "%s" | _build/cargo/debug/zh pure' % ln})
        chk.cov['components'][comp + ':oracle'] = {'evaluations': len(lines), 'mismatches': bad}
        chk.cov['evaluations'] += len(lines)
        return canon

    def ll_exp(v):
        for c in range(35, -1, -1):
            if T['LL_base'][c] <= v:
                return (0, [c, v - T['LL_base'][c], T['LL_bits'][c]])
    def ml_exp(v):
        for c in range(52, -1, -1):
            if T['ML_base'][c] <= v:
                return (0, [c, v - T['ML_base'][c], T['ML_bits'][c]])

    step = 1 if thorough else 1
    vs = list(range(0, 131072, step))
    direct('enc_ll', ['enc_ll %d' % v for v in vs], [ll_exp(v) for v in vs])
    vs = list(range(3, 131075, step))
    direct('enc_ml', ['enc_ml %d' % v for v in vs], [ml_exp(v) for v in vs])
    direct('ll_code', ['ll_code %d' % c for c in range(0, 256)],
           [(0, [T['LL_base'][c], T['LL_bits'][c]]) if c <= 35 else (2, []) for c in range(256)])
    direct('ml_code', ['ml_code %d' % c for c in range(0, 256)],
           [(0, [T['ML_base'][c], T['ML_bits'][c]]) if c <= 52 else (2, []) for c in range(256)])
    ofs = sorted(set([1, 2, 3, 4, 2 ** 32 - 1] + [2 ** k + d for k in range(32) for d in (-1, 0, 1) if 1 <= 2 ** k + d < 2 ** 32]
                     + [rng.range(1, 2 ** 32 - 1) for _ in range(20000 if thorough else 3000)]))
    direct('enc_of', ['enc_of %d' % v for v in ofs],
           [(0, [v.bit_length() - 1, v - (1 << (v.bit_length() - 1)), v.bit_length() - 1]) for v in ofs])
    ns = list(range(1, 98048))
    direct('seqnum', ['seqnum %d' % n for n in ns], [(0, spec_seqnum_bytes(n)) for n in ns], kind='hex')
    # every encoded count is read back
    lines = ['seqhdr ' + hexs(spec_seqnum_bytes(n) + [MODES]) for n in ns]
    direct('seqnum_rt', lines, [(0, [len(spec_seqnum_bytes(n)) + 1, n, MODES >> 2]) for n in ns])
    # all block headers (quick: all b0 x b2 with 16 b1 values; thorough: all 2^24)
    b1s = list(range(256)) if thorough else sorted(set([0, 1, 127, 128, 255] + [rng.below(256) for _ in range(11)]))
    trip = [(b0, b1, b2) for b0 in range(256) for b1 in b1s for b2 in range(256)]
    def bexp(t):
        s = spec_blkhdr(*t)
        return (0, s) if s else (1, [])
    direct('blkhdr', ['blkhdr %d %d %d' % t for t in trip], [bexp(t) for t in trip])
    # serialisation round trip of every size / type / last flag
    sizes = list(range(0, 131073)) if thorough else sorted(set(list(range(0, 300)) + [131071, 131072] + [rng.below(131073) for _ in range(3000)]))
    ser = [(ty, sz, last) for ty in (0, 1, 2) for sz in sizes for last in (0, 1)]
    direct('blkser', ['blkser %d %d %d' % t for t in ser],
           [(0, list(((sz << 3) | (ty << 1) | last).to_bytes(3, 'little'))) for ty, sz, last in ser], kind='hex')
    # offset history
    oh = []
    for ov in [1, 2, 3, 4, 5, 2 ** 32 - 1] + [rng.range(1, 2 ** 32 - 1) for _ in range(200)]:
        for ll in (0, 1, 7):
            for h in ([1, 4, 8], [5, 5, 5], [2 ** 32 - 1, 1, 2], [0, 3, 9],
                      [rng.range(1, 2 ** 32 - 1), rng.range(1, 2 ** 32 - 1), rng.range(1, 2 ** 32 - 1)]):
                oh.append((ov, ll, h))
    def ohexp(ov, ll, h):
        a, nh = spec_offhist(ov, ll, h)
        return (0, [a] + nh)
    direct('offhist', ['offhist %d %d %d %d %d' % (ov, ll, h[0], h[1], h[2]) for ov, ll, h in oh], [ohexp(*x) for x in oh])
    # frame headers: all descriptor x window bytes, with random field contents; plus truncations
    fh = []
    for d in range(256):
        for wd in (list(range(256)) if (thorough or d % 16 == rng.below(16)) else [0, 1, 0xFE, 0xFF, rng.below(256), rng.below(256)]):
            body = [0x28, 0xB5, 0x2F, 0xFD, d] + ([] if (d >> 5) & 1 else [wd]) + list(rng.bytes(12))
            if rng.chance(1, 8):
                body = body[:rng.below(len(body))]
            fh.append(body)
    # dictionary-id fields of every width holding zero (flag set, "no dictionary") and small values
    for d in range(256):
        if d & 3:
            dl = [0, 1, 2, 4][d & 3]
            for did in (0, 1):
                fh.append([0x28, 0xB5, 0x2F, 0xFD, d] + ([] if (d >> 5) & 1 else [rng.below(256)]) + list(did.to_bytes(dl, 'little')) + list(rng.bytes(9)))
    for m in (0x184D2A50, 0x184D2A5F, 0x184D2A4F, 0x184D2A60, 0xFD2FB527):
        fh.append(list(m.to_bytes(4, 'little')) + list(rng.bytes(6)))
        fh.append(list(m.to_bytes(4, 'little')) + list(rng.bytes(2)))
    def fexp(b):
        s = spec_framehdr(b)
        if s[0] == 'ok':
            v = list(s[1])
            if not (1024 <= v[2] <= (1 << 41) + 7 * (1 << 38)) and not ((v[1] >> 5) & 1):
                v[2] = -1
            return (0, v)
        if s[0] == 'skip': return (3, s[1])
        return (1, [])
    direct('framehdr', ['framehdr ' + hexs(b) for b in fh], [fexp(b) for b in fh])
    # literals headers: all first bytes x random tails x all truncations
    lh = []
    for r0 in range(256):
        for _ in range(6 if thorough else 2):
            tail = list(rng.bytes(5))
            full = [r0] + tail
            lh.append(full)
            lh.append(full[:rng.range(1, 5)])
    lh += [[r0, 0xFF, 0xFF, 0xFF, 0xFF] for r0 in range(256)]
    def lexp(b):
        s = spec_lithdr(b)
        return (0, s) if s else (1, [])
    direct('lithdr', ['lithdr ' + hexs(b) for b in lh], [lexp(b) for b in lh])
    # raw literals header the compressor writes (20-bit form) parses back
    lens = sorted(set([0, 1, 31, 32, 4095, 4096, 131071, 131072] + [rng.below(131073) for _ in range(200)]))
    direct('rawlit', ['rawlit %d' % n for n in lens],
           [(0, list(((n << 4) | 0b1100).to_bytes(3, 'little'))) for n in lens], kind='hex')
    mw = [0, 1, 1023, 1024, 128 << 20, (1 << 41) + 7 * (1 << 38) - 1, (1 << 41) + 7 * (1 << 38), (1 << 41) + 7 * (1 << 38) + 1, 2 ** 64 - 1] + [rng.next() for _ in range(50)]
    direct('maxwin', ['maxwin %d' % v for v in mw], [(0, [min(v, (1 << 41) + 7 * (1 << 38))]) for v in mw])

    # ---- generated / hand-model definitions against the Rust hooks (validates translator and hand models)
    def tie(comp, glue, inputs, fmt, kind='ints'):
        lines = [fmt(x) for x in inputs]
        rc, res, err = zh('pure', lines, 'debug')
        if len(res) != len(lines):
            chk.tie_broken('harness:' + comp, 'line count mismatch')
            return
        canon = [parse_canon(r, kind) for r in res]
        dis = model_vs_impl(chk, comp, glue, inputs, canon)
        chk.cov['disagreements_checked'] += len(dis)
        distinct = len(set(tuple(x) for x in inputs))
        chk.add_samples(comp, len(inputs), distinct, [{'input': fmt(inputs[i]), 'impl': res[i]} for i in (0, len(inputs) // 2, len(inputs) - 1)],
                        rule='boundary values of every range pattern + PRNG values; distinct = distinct argument tuples')
        if dis:
            x, r, m = dis[0]
            chk.tie_broken('correspondence:' + comp, 'model and implementation differ on %s: impl %s model %s (%d cases)' % (fmt(x), r, m, len(dis)))

    def around(points, lo, hi):
        s = set()
        for p in points:
            for d in (-1, 0, 1):
                if lo <= p + d <= hi:
                    s.add(p + d)
        return s
    n_rand = 1500 if thorough else 300
    llv = sorted(around(T['LL_base'] + [131071], 0, 131072) | {rng.below(131073) for _ in range(n_rand)})
    mlv = sorted(around(T['ML_base'] + [131074], 0, 131076) | {rng.below(131077) for _ in range(n_rand)})
    tie('enc_ll', 'g_enc_ll', [[v] for v in llv], lambda x: 'enc_ll %d' % x[0])
    tie('enc_ml', 'g_enc_ml', [[v] for v in mlv], lambda x: 'enc_ml %d' % x[0])
    tie('ll_code', 'g_ll_code', [[c] for c in range(256)], lambda x: 'll_code %d' % x[0])
    tie('ml_code', 'g_ml_code', [[c] for c in range(256)], lambda x: 'ml_code %d' % x[0])
    tie('enc_of', 'g_enc_of', [[v] for v in [0] + ofs[:400] + ofs[-100:]], lambda x: 'enc_of %d' % x[0])
    tie('offhist', 'g_offhist', [[ov, ll] + h for ov, ll, h in oh[:600]] + [[0, 1, 1, 2, 3], [0, 0, 1, 2, 3]],
        lambda x: 'offhist %d %d %d %d %d' % tuple(x))
    sn = sorted(around([1, 127, 128, 0x7EFF, 0x7F00, 0x7FFF, 0x8000, 98047], 0, 98048) | {rng.below(98049) for _ in range(n_rand)})
    tie('seqnum', 'g_seqnum', [[n] for n in sn], lambda x: 'seqnum %d' % x[0], kind='hex')
    sh = [list(rng.bytes(rng.range(0, 5))) for _ in range(n_rand)] + [[b0] + list(rng.bytes(k)) for b0 in (0, 1, 127, 128, 129, 254, 255) for k in range(5)]
    tie('seqhdr', 'g_seqhdr', sh, lambda x: 'seqhdr ' + hexs(x))
    tie('minsize', 'g_minsize', [[v] for v in sorted(around([0, 255, 256, 65535, 65536, 2 ** 32 - 1, 2 ** 32, 2 ** 64 - 1], 0, 2 ** 64 - 1))],
        lambda x: 'minsize %d' % x[0])
    bt = [list(t) for t in trip[::max(1, len(trip) // (4000 if thorough else 1200))]]
    tie('blkhdr', 'g_blkhdr', bt, lambda x: 'blkhdr %d %d %d' % tuple(x))
    tie('blkser', 'g_blkser', [list(t) for t in ser[::max(1, len(ser) // 800)]] + [[3, 5, 0]], lambda x: 'blkser %d %d %d' % tuple(x), kind='hex')
    tie('maxwin', 'g_maxwin', [[v] for v in mw], lambda x: 'maxwin %d' % x[0])
    tie('framehdr', 'g_framehdr', fh[::max(1, len(fh) // (3000 if thorough else 900))], lambda x: 'framehdr ' + hexs(x))
    tie('lithdr', 'g_lithdr', lh[::max(1, len(lh) // 900)], lambda x: 'lithdr ' + hexs(x))
    tie('lithdr_need', 'g_lithdr_need', [[c] for c in range(256)], lambda x: 'lithdr_need %d' % x[0])
