"""C20 -- the dictionary builder terminates without panic and respects the requested size.

proof      : coq/props/C20.v (for every source, estimate and candidate pool: at most dict_size bytes are written; the sizing
             arithmetic never divides by zero or fails an assertion; the output is the best-scoring end of the pool)
tie check  : the small-source path of the model (output = source[..dict_size]) against the implementation, exactly; the size
             bound against every output
oracle     : no panic, return within the deadline, output length <= dict_size, output made of bytes of the source
"""
from vlib import *
from checks.deccommon import prepare, hexs, unhex
import framegen, encgen


def run(chk):
    rng = SplitMix64(chk.seed).fork('C20')
    thorough = chk.tier == 'thorough'
    chk.prove('props/C20.v')
    if not prepare(chk):
        return
    lines, meta = [], []
    def add(data, est, dsize, chunk):
        lines.append('%d %d %d %s' % (est, dsize, chunk, hexs(data)))
        meta.append((data, est, dsize))
    # exhaustive small grid: true length x estimate x dictionary size (uniform and varied content)
    for n in [0, 1, 2, 15, 16, 17, 31, 32, 33, 100, 101, 255, 256, 1000, 2047, 2048, 2049, 5000]:
        for est in sorted(set([0, 1, 15, 16, 17, n, n + 1, max(0, n - 1), 2 * n, n // 2, 100000])):
            for dsize in [0, 1, 15, 16, 64, 1000, 100000]:
                d = bytes([65]) * n if (n + est + dsize) % 3 == 0 else encgen.literals(rng, n, 'text')
                add(d, est, dsize, rng.choice([0, 0, 1, 7, 100]))
    for _ in range(600 if thorough else 150):
        d, _k = framegen.gen_content(rng, rng.choice(['tiny', 'small', 'small', 'medium']))
        n = len(d)
        est = rng.choice([n, n, n + rng.below(1000), max(0, n - rng.below(1000)), rng.below(2 * n + 20), 16, 2048])
        add(d, est, rng.choice([0, 1, 16, 100, 1024, 4096, 112640, n // 100 + 1, n]), rng.choice([0, 0, 13, 4096]))
    # (a 1 MB source takes minutes: the builder scores every sample segment once per 100 bytes read; slow, not hung)
    for n in ([300000, 500000] if thorough else [300000]):
        add(encgen.literals(rng, n, 'text'), n, 4096, 0)
    # source sizes whose sample (about 1/256 of the source) ends in a segment shorter than one 16-byte k-mer
    for n in ([524544, 525000, 528383, 1049000] if thorough else [524800]):
        add(encgen.literals(rng, n, 'text'), n, 4096, 0)
    res = []
    B = 200
    for s0 in range(0, len(lines), B):
        rc, r, err = zh('dictb', lines[s0:s0 + B], 'release', timeout=900)
        if rc == 124 or len(r) != len(lines[s0:s0 + B]):
            for ln in lines[s0:s0 + B]:
                rc1, r1, e1 = zh('dictb', [ln], 'release', timeout=600)
                if rc1 != 0 or len(r1) != 1:
                    chk.violation('the dictionary builder did not return within 600 s (or the process died, exit %s)' % rc1,
                                  {'component': 'dict-builder', 'command': ln[:300000], 'how': 'echo "<command>" | _build/cargo/release/zh dictb   (<estimate> <dict_size> <reader chunk> <source-hex>)'})
                    r1 = ['timeout']
                res += r1
        else:
            res += r
    nb = 0
    for ln, (d, est, dsize), r in zip(lines, meta, res):
        w = r.split()
        why = None
        if w[0] == 'panic':
            why = 'the dictionary builder panicked (source of %d bytes, estimate %d, dictionary size %d)' % (len(d), est, dsize)
        elif w[0] == 'ok':
            out = unhex(w[1]) if len(w) > 1 else b''
            if len(out) > dsize:
                why = 'the dictionary builder wrote %d bytes although %d were requested (source of %d bytes, estimate %d)' % (len(out), dsize, len(d), est)
            elif est < 16 and out != d[:dsize]:
                why = 'small-source path: output differs from the model (the first min(dict_size, len) bytes of the source)'
        if why and nb < 5:
            nb += 1
            chk.violation(why, {'component': 'dict-builder', 'command': ln[:300000], 'how': 'echo "<command>" | _build/cargo/release/zh dictb   (<estimate> <dict_size> <reader chunk> <source-hex>)'})
    sizes = sorted(len(unhex(r.split()[1])) if r.startswith('ok ') and len(r.split()) > 1 else 0 for r in res)
    chk.add_samples('dict-builder', len(lines), len(set(lines)), [{'command': lines[0][:80]}, {'command': lines[-1][:80]}],
                    rule='grid: true length {0..5000 around 16, 2048} x estimate {0,1,15,16,17,n,n+-1,2n,n/2,100000} x dictionary size {0,1,15,16,64,1000,100000} with uniform and text content and fragmenting readers; generated contents with exact / too small / too large estimates; one 300000 byte source')
    chk.cov['components']['dict-builder'].update({'largest_output': sizes[-1] if sizes else 0, 'nonempty_outputs': sum(1 for x in sizes if x)})
