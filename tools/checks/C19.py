"""C19 -- command-line compress then decompress restores the file byte for byte.

proof      : coq/props/C19.v (level option -> implemented level or refusal before any output exists; absent option is an
             implemented level; default output names round trip) over coq/model/Cli.v; library round trip: C02
tie check  : the built ruzstd-cli binary run for EVERY value 0..255 of --level and without it: outcome class = model
oracle     : files: compress (level absent / 0 / 1, explicit / default output) then decompress (explicit / default output)
             recreates the original; the archive decodes with libzstd; refusals and damaged archives end in a non-zero exit
             status without a panic and without an output that looks like a result
"""
from vlib import *
from checks.deccommon import prepare, hexs, unhex
import framegen, encgen, subprocess, shutil, tempfile

CLI_TARGET = os.path.join(VERIF, '_build', 'cargo_cli')


def build_cli():
    env = dict(os.environ, CARGO_NET_OFFLINE='true', CARGO_TARGET_DIR=CLI_TARGET)
    p = subprocess.run(['cargo', 'build', '--release', '--offline', '-p', 'ruzstd-cli'], cwd='/repo', env=env, stdout=subprocess.PIPE, stderr=subprocess.STDOUT)
    return p.returncode == 0, p.stdout.decode('utf-8', 'replace')[-800:]


def cli(args, cwd):
    p = subprocess.run([os.path.join(CLI_TARGET, 'release', 'ruzstd-cli')] + args, cwd=cwd, stdout=subprocess.PIPE, stderr=subprocess.PIPE, timeout=300,
                       env=dict(os.environ, NO_COLOR='1', RUST_BACKTRACE='0'))
    return p.returncode, (p.stdout + p.stderr).decode('utf-8', 'replace')


def model_levels():
    """evaluate the Coq model for all level options -> dict opt -> 'U' | 'F' | 'R'"""
    body = 'Require Import Zrs.lib.RsPrelude Zrs.model.FrameEnc Zrs.model.Cli.\nOpen Scope Z_scope.\n'
    body += 'Definition cls (o : option Z) : Z := match cli_map_level o with CliLevel LUncompressed => 0 | CliLevel LFastest => 1 | CliRefuse => 2 end.\n'
    body += 'Eval vm_compute in (cls None :: map (fun n => cls (Some (Z.of_nat n))) (seq 0 256)).\n'
    rc, out, err, dt = coq_eval('c19_levels', body)
    if rc != 0 or '=' not in out:
        return None
    import re
    return [int(x) for x in re.findall(r'\d+', out.split('=', 1)[1].split(':')[0])]


def run(chk):
    rng = SplitMix64(chk.seed).fork('C19')
    thorough = chk.tier == 'thorough'
    chk.prove('props/C19.v')
    if not prepare(chk):
        return
    with Lock('cargo_cli'):
        ok, log = build_cli()
    if not ok:
        chk.tie_broken('cli-build', log)
        return
    nb = [0]
    def bad(what, rep):
        if nb[0] < 5:
            nb[0] += 1
            rep['how'] = 'cargo build --release -p ruzstd-cli ; run the listed command lines in an empty directory containing the listed input file'
            chk.violation(what, rep)
    work = tempfile.mkdtemp(prefix='c19_', dir=os.path.join(VERIF, '_build'))
    try:
        # ---- exhaustive level options against the model
        data = encgen.literals(rng, 3000, 'text')
        open(os.path.join(work, 'in.bin'), 'wb').write(data)
        classes = []
        for opt in [None] + list(range(256)):
            out = os.path.join(work, 'lv.zst')
            if os.path.exists(out):
                os.remove(out)
            rc, log = cli(['compress', 'in.bin', 'lv.zst'] + ([] if opt is None else ['-l', str(opt)]), work)
            exists = os.path.exists(out)
            panicked = 'panicked' in log
            if rc == 0 and exists:
                f = open(out, 'rb').read()
                w = framegen.walk_blocks(f)
                kind = 0 if (w and all(b[2] == 0 for b in w[1])) else 1
                r = zh('codec', ['zdec %s' % hexs(f)])[1][0].split()
                if r[0] != 'ok' or unhex(r[1]) != data:
                    bad('compress with level option %s wrote an archive libzstd does not restore' % opt, {'component': 'levels', 'commands': ['compress in.bin lv.zst' + ('' if opt is None else ' -l %d' % opt)], 'input_hex': hexs(data)})
                classes.append(kind)
            else:
                classes.append(2)
                if rc == 0 or panicked or (exists and os.path.getsize(out) >= 0):
                    if rc == 0:
                        why = 'exit status 0 without an archive'
                    elif panicked:
                        why = 'the tool panicked (exit %d)%s' % (rc, ' leaving an output file of %d bytes' % os.path.getsize(out) if exists else '')
                    else:
                        why = 'a failed compress left an output file of %d bytes' % os.path.getsize(out)
                    bad('compress with level option %s: %s' % (opt, why), {'component': 'levels', 'commands': ['compress in.bin lv.zst' + ('' if opt is None else ' -l %d' % opt)], 'input_hex': hexs(data)})
        mod = model_levels()
        if mod is None or len(mod) != 257:
            chk.tie_broken('correspondence:cli-levels', 'could not evaluate the level model')
        elif mod != classes:
            i = next(i for i in range(257) if mod[i] != classes[i])
            chk.tie_broken('correspondence:cli-levels', 'level option %s: model says %s, the binary did %s (0 = raw blocks only, 1 = Fastest, 2 = refused)' % (
                'absent' if i == 0 else i - 1, mod[i], classes[i]))
        for bogus in (['-l', '256'], ['-l', '-1'], ['-l', 'abc']):
            rc, log = cli(['compress', 'in.bin', 'lv2.zst'] + bogus, work)
            if rc == 0 or 'panicked' in log or os.path.exists(os.path.join(work, 'lv2.zst')):
                bad('compress with %s: exit %d%s' % (' '.join(bogus), rc, ', panicked' if 'panicked' in log else ''), {'component': 'levels', 'commands': ['compress in.bin lv2.zst ' + ' '.join(bogus)], 'input_hex': hexs(data)})
        chk.add_samples('levels', 260, 260, [{'option': 'absent'}, {'option': 255}], rule='--level absent, 0..255 (exhaustive over the option type), 256, -1, abc')

        # ---- file round trips
        contents = [b'', b'x', encgen.literals(rng, 1000, 'text'), bytes(131072), rng.bytes(131072), rng.bytes(131073), encgen.literals(rng, 300000, 'text')]
        contents += [framegen.gen_content(rng, rng.choice(['tiny', 'small', 'medium']))[0] for _ in range(40 if thorough else 12)]
        n = 0
        for d in contents:
            for opt in (None, 0, 1):
                for default_out in (False, True):
                    n += 1
                    sub = os.path.join(work, 'rt%d' % n)
                    os.makedirs(sub)
                    name = rng.choice(['data.bin', 'noext', 'a.tar', 'with space.txt', 'old.zst', 'x.tar.zst', '.hidden', 'a.b.c', 'z.zst.zst'])
                    open(os.path.join(sub, name), 'wb').write(d)
                    cmds = []
                    a1 = ['compress', name] + ([] if default_out else ['arch.zst']) + ([] if opt is None else ['-l', str(opt)])
                    cmds.append(' '.join(a1))
                    rc, log = cli(a1, sub)
                    arch = name + '.zst' if default_out else 'arch.zst'
                    rep = {'component': 'roundtrip', 'commands': cmds, 'input_name': name, 'input_hex': hexs(d)[:400000]}
                    if rc != 0 or not os.path.exists(os.path.join(sub, arch)):
                        bad('compress failed (exit %d%s) for a %d byte file, level option %s' % (rc, ', panic' if 'panicked' in log else '', len(d), opt), rep)
                        continue
                    f = open(os.path.join(sub, arch), 'rb').read()
                    r = zh('codec', ['zdec %s' % hexs(f)])[1][0].split()
                    if r[0] != 'ok' or unhex(r[1] if len(r) > 1 else '-') != d:
                        bad('the archive is not valid for the reference decoder (%d byte file, level option %s): %s' % (len(d), opt, ' '.join(r)[:60]), rep)
                        continue
                    os.rename(os.path.join(sub, name), os.path.join(sub, 'orig.keep'))
                    a2 = ['decompress', arch] + ([] if default_out else ['back.out'])
                    cmds.append(' '.join(a2))
                    rc, log = cli(a2, sub)
                    back = name if default_out else 'back.out'
                    if rc != 0 or not os.path.exists(os.path.join(sub, back)) or open(os.path.join(sub, back), 'rb').read() != d:
                        bad('decompress did not recreate the original %d byte file (exit %d, level option %s, %s output)' % (len(d), rc, opt, 'default' if default_out else 'explicit'), rep)
                    shutil.rmtree(sub, ignore_errors=True)
        chk.add_samples('roundtrip', n, n, [{'size': len(contents[0])}, {'size': len(contents[-1])}], rule='file contents (empty, 1 byte, 128 KiB zeros / random, 128 KiB + 1, 300000 text, generated) x level option {absent, 0, 1} x {explicit, default} output paths, names with and without extension / with a space')

        # ---- operations that cannot be carried out
        d = encgen.literals(rng, 200000, 'text')
        open(os.path.join(work, 'big.bin'), 'wb').write(d)
        cli(['compress', 'big.bin', 'big.zst', '-l', '1'], work)
        arch = open(os.path.join(work, 'big.zst'), 'rb').read()
        cuts = [0, 1, 3, 4, 5, 6, 8, 20, len(arch) // 2, len(arch) - 5, len(arch) - 4, len(arch) - 1]
        m = 0
        for c in cuts:
            m += 1
            open(os.path.join(work, 'cut.zst'), 'wb').write(arch[:c])
            outp = os.path.join(work, 'cut.out')
            if os.path.exists(outp):
                os.remove(outp)
            rc, log = cli(['decompress', 'cut.zst', 'cut.out'], work)
            got = open(outp, 'rb').read() if os.path.exists(outp) else None
            if 'panicked' in log or (rc == 0 and got != d):
                bad('decompressing an archive cut after %d of %d bytes: exit status %d%s, output %s' % (c, len(arch), rc, ', panic' if 'panicked' in log else '', 'absent' if got is None else '%d of %d bytes' % (len(got), len(d))),
                    {'component': 'failures', 'commands': ['compress big.bin big.zst -l 1', 'truncate big.zst to %d bytes as cut.zst' % c, 'decompress cut.zst cut.out'], 'input_hex': hexs(d)[:400000]})
        rc, log = cli(['decompress', 'missing.zst', 'x.out'], work)
        if rc == 0 or 'panicked' in log:
            bad('decompress of a missing file: exit %d%s' % (rc, ' panic' if 'panicked' in log else ''), {'component': 'failures', 'commands': ['decompress missing.zst x.out']})
        rc, log = cli(['compress', 'missing.bin', 'x.zst'], work)
        if rc == 0 or 'panicked' in log:
            bad('compress of a missing file: exit %d%s' % (rc, ' panic' if 'panicked' in log else ''), {'component': 'failures', 'commands': ['compress missing.bin x.zst']})
        chk.add_samples('failures', m + 2, m + 2, [{'cut': cuts[0]}, {'cut': cuts[-1]}], rule='archive truncated after 0,1,3,4,5,6,8,20 bytes, in the middle, and 5/4/1 bytes before the end; missing input files')
    finally:
        shutil.rmtree(work, ignore_errors=True)
