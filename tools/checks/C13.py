"""C13 -- Huffman tables are valid and literal coding round-trips for every distribution.

proof      : coq/props/C13.v (code shape valid for all 2..256 alphabet sizes; decoder rebuilds the compressor's code for
             every size under several rank orders; rejections) over models of huff0_encoder.rs / huff0_decoder.rs
tie check  : weight shapes for all sizes, decoder tables for direct and FSE-compressed descriptions (valid and
             invalid), through implementation (hooks) and models (Coq evaluation / extracted model)
oracle     : canonical Huffman code of RFC 8878 4.2.1 transcribed independently in Python; literal round trips
"""
from vlib import *
from checks.deccommon import *
import framegen, entropy_spec


def run(chk):
    rng = SplitMix64(chk.seed).fork('C13')
    thorough = chk.tier == 'thorough'
    chk.prove('props/C13.v')
    if not prepare(chk):
        return
    # ---- (a) weight shapes for every alphabet size: implementation vs model (inside Coq)
    ns = list(range(2, 257))
    rc, res, err = zh('entropy', ['hufshape %d' % n for n in ns])
    shapes = [[int(x) for x in r.split()[1].split(',')] if r.startswith('ok') else None for r in res]
    body = ['Require Import Zrs.lib.RsPrelude Zrs.model.HufEnc.', 'Open Scope Z_scope.',
            'Fixpoint leqb (a b : list Z) : bool := match a, b with [], [] => true | x :: a\', y :: b\' => (x =? y) && leqb a\' b\' | _, _ => false end.',
            'Definition cases : list (Z * list Z) := [' + ';\n'.join('(%d, %s)' % (n, coq_list(s or [-1])) for n, s in zip(ns, shapes)) + '].',
            'Eval vm_compute in (map fst (filter (fun c => negb (match shape (fst c) with ROk ws => leqb ws (snd c) | _ => false end)) cases)).']
    rc, out, err, dt = coq_eval('C13_shapes', '\n'.join(body))
    flat = ' '.join(out.split())
    m = re.search(r"= (\[[^\]]*\]|nil) : list Z", flat)
    if rc != 0 or not m:
        chk.tie_broken('correspondence:hufshape', 'coqc failed: ' + (err or flat)[-300:])
    elif m.group(1) not in ('[]', 'nil'):
        bad = [int(x) for x in re.findall(r"\d+", m.group(1))]
        chk.tie_broken('correspondence:hufshape', 'weight shapes of model and implementation differ for alphabet sizes %s' % bad[:10])
    # oracle on the implementation: complete code, depth <= 11, all weights >= 1
    for n, s in zip(ns, shapes):
        if s is None or len(s) != n or min(s) < 1:
            chk.violation('weight shape for %d symbols: %s' % (n, s), {'component': 'hufshape', 'input': 'hufshape %d' % n, 'how': 'echo "hufshape %d" | _build/cargo/release/zh entropy' % n})
            break
        k = sum(1 << (w - 1) for w in s)
        if k & (k - 1) or k.bit_length() - 1 > 11 or max(s) > k.bit_length() - 1:
            chk.violation('weight shape for %d symbols is not a complete code of depth <= 11 (Kraft sum %d)' % (n, k),
                          {'component': 'hufshape', 'input': 'hufshape %d' % n, 'how': 'echo "hufshape %d" | _build/cargo/release/zh entropy' % n})
            break
    chk.add_samples('hufshape', len(ns), len(ns), [{'n': 17, 'shape': shapes[15]}], rule='all alphabet sizes 2..256')
    # ---- (b) decoder tables from weight descriptions
    descs = []
    # direct descriptions: exhaustive up to 3 weights (thorough: 4), random beyond; valid and invalid
    def direct(ws):
        b = [127 + len(ws)]
        for i in range(0, len(ws), 2):
            b.append((ws[i] << 4) | (ws[i + 1] if i + 1 < len(ws) else 0))
        return bytes(b)
    import itertools
    for L in (1, 2, 3) + ((4,) if thorough else ()):
        for ws in itertools.product(range(0, 13 if L < 3 else 9), repeat=L):
            descs.append(direct(list(ws)) + rng.bytes(2))
    for _ in range(2000 if thorough else 500):
        L = rng.range(1, 128)
        # mostly valid: take the compressor's shape for a random size and shuffle it / pad with zeros
        n = rng.range(2, min(L + 1, 128))
        base = [x for x in (shapes[n - 2] or [1, 1])]
        ws = base[:-1] if rng.below(2) else base[1:]
        ws = ws + [0] * rng.below(4)
        for _ in range(rng.below(3)):
            i, j = rng.below(len(ws)), rng.below(len(ws))
            ws[i], ws[j] = ws[j], ws[i]
        if rng.below(5) == 0:
            ws[rng.below(len(ws))] = rng.below(13)
        ws = ws[:128]
        descs.append(direct(ws) + rng.bytes(1))
    # FSE-compressed descriptions as the compressor writes them (more than 16 weights), plus corrupted ones
    enc_lines, enc_inputs = [], []
    for _ in range(300 if thorough else 80):
        k = rng.choice([17, 18, 20, 32, 40, 64, 100, 128, 200, 255, 256])
        alpha = list(range(256))
        for i in range(255, 0, -1):
            j = rng.below(i + 1)
            alpha[i], alpha[j] = alpha[j], alpha[i]
        alpha = alpha[:k]
        n = rng.choice([1100, 2000, 5000])
        skew = rng.choice([1, 2, 3])
        data = bytes(alpha[min(k - 1, int((rng.below(1000) / 1000.0) ** skew * k))] for _ in range(n))
        enc_inputs.append(data)
        enc_lines.append('hufenc %d %s' % (rng.choice([1, 4]), data.hex()))
    enc_res = zh_par('entropy', enc_lines)
    nrt = 0
    for data, ln, r in zip(enc_inputs, enc_lines, enc_res):
        w = r.split()
        if not w or w[0] != 'ok':
            chk.violation('the Huffman encoder failed (%s) on %d literals over %d symbols' % (r[:40], len(data), len(set(data))),
                          {'component': 'hufenc', 'input': ln[:300000], 'how': 'echo "<input>" | _build/cargo/release/zh entropy'})
            continue
        enc = bytes.fromhex(w[1])
        descs.append(enc[:300])
        if rng.below(3) == 0:
            b = bytearray(enc[:300])
            b[rng.below(min(len(b), 40))] ^= 1 << rng.below(8)
            descs.append(bytes(b))
        nrt += 1
    lines = ['huf ' + d.hex() for d in descs]
    impl = zh_par('entropy', lines)
    mod = model_run('huf', [d.hex() for d in descs])
    ndis = 0
    nor = 0
    for d, a, b in zip(descs, impl, mod):
        if a != b:
            ndis += 1
            if ndis == 1:
                chk.tie_broken('correspondence:huf-table', 'decoder tables of model and implementation differ on description %s: impl %s model %s' % (d.hex()[:80], a[:80], b[:80]))
        # oracle for direct descriptions
        if d[0] >= 128:
            nw = d[0] - 127
            need = (nw + 1) // 2
            if len(d) - 1 >= need:
                ws = []
                for i in range(nw):
                    byte = d[1 + i // 2]
                    ws.append(byte >> 4 if i % 2 == 0 else byte & 15)
                spec = entropy_spec.huf_table_from_weights(ws)
                nor += 1
                if spec is None:
                    exp = 'err'
                else:
                    exp = 'ok %d %d %s' % (1 + need, spec[0], ' '.join('%d,%d' % e for e in spec[1]))
                if a != exp and len(chk.violations) < 3:
                    chk.violation('decoder table for direct weights %s: implementation %s, RFC canonical code %s' % (ws, a[:80], exp[:80]),
                                  {'component': 'huf-table', 'input': 'huf ' + d.hex(), 'how': 'echo "huf %s" | _build/cargo/release/zh entropy' % d.hex()})
    chk.cov['disagreements_checked'] += ndis
    chk.add_samples('huf-table', len(descs), len(set(descs)), [{'description': descs[i].hex()[:60], 'impl': impl[i][:60]} for i in (0, len(descs) // 2, len(descs) - 1)],
                    rule='direct weight descriptions (exhaustive for 1-3 weights incl. invalid ones, shuffled/perturbed compressor shapes beyond), FSE-compressed descriptions written by the compressor for 17..256 symbols and bit-flipped variants; distinct = distinct byte strings')
    chk.cov['components']['huf-table']['oracle_checked'] = nor
    # ---- (d) whole literals sections as compress_literals writes them (header with its size format, description, jump
    # table, streams), at the literal counts where the size format changes, wrapped into a one-block frame and decoded
    # by this crate's decoder and by libzstd
    sec_inputs = []
    for n in [1025, 1026, 2047, 4096, 16382, 16383, 16384, 16385, 16386, 20000, 65535, 65536, 131071, 131072][: (14 if thorough else 11)]:
        for k in ((40, 200) if thorough else (40,)):
            alpha = [rng.below(256) for _ in range(k)]
            sec_inputs.append(bytes(alpha[min(k - 1, int((rng.below(1000) / 1000.0) ** 2 * k))] for _ in range(n)))
    sec_res = zh_par('pure', ['complit ' + d.hex() for d in sec_inputs])
    sec_frames = []
    for d, r in zip(sec_inputs, sec_res):
        w = r.split()
        if not w or w[0] != 'ok':
            chk.violation('compress_literals failed on %d literals: %s' % (len(d), r[:60]), {'component': 'literal-section', 'input': 'complit ' + d.hex()[:200000], 'how': 'echo "<input>" | _build/cargo/release/zh pure'})
            continue
        body = bytes.fromhex(w[1]) + b'\x00'
        if len(body) > 131072:
            continue
        sec_frames.append((d, framegen.frame_header_bytes(window_log=17) + framegen.block_header(1, 2, len(body)) + body))
    zr = zh_par('codec', ['zdec %s' % f.hex() for d, f in sec_frames])
    pr = zh_par('prog', ['src=%s I Ba C' % f.hex() for d, f in sec_frames])
    nsec = 0
    for (d, f), z, pgm in zip(sec_frames, zr, pr):
        zw = z.split()
        ok_ref = len(zw) >= 2 and zw[0] == 'ok' and zw[1] == (d.hex() if d else '-')
        if not ok_ref and len(chk.violations) < 3:
            chk.violation('the literals section written for %d literals is not decoded to them by the reference decoder: %s' % (len(d), z[:80]),
                          {'component': 'literal-section', 'literal_count': len(d), 'frame_hex': f.hex()[:300000], 'input': 'complit ' + d.hex()[:300000],
                           'how': 'echo "<input>" | _build/cargo/release/zh pure ; wrap the section into a compressed block without sequences and decode'})
        if ('C:' + d.hex()) not in pgm.split() and len(chk.violations) < 3:
            chk.violation('the literals section written for %d literals is not decoded to them by this crate: %s' % (len(d), pgm[:80]),
                          {'component': 'literal-section', 'literal_count': len(d), 'frame_hex': f.hex()[:300000], 'input': 'complit ' + d.hex()[:300000],
                           'how': 'echo "src=<frame_hex> I Ba C" | _build/cargo/release/zh prog'})
        nsec += 1
    chk.cov['components']['literal-section'] = {'evaluations': nsec, 'literal_counts': sorted(set(len(d) for d in sec_inputs))}
    chk.cov['evaluations'] += nsec
    # ---- (c) literal round trips through the crate's own encoder and decoder (1 and 4 streams)
    rt_lines = []
    for _ in range(300 if thorough else 80):
        data, cls = framegen.gen_content(rng, rng.choice(['small', 'small', 'medium']))
        if len(set(data)) < 2 or len(data) < 64:
            continue
        rt_lines.append('hufrt ' + data.hex())
    rt = zh_par('entropy', rt_lines)
    for ln, r in zip(rt_lines, rt):
        if r != 'ok' and len(chk.violations) < 3:
            chk.violation('Huffman literal round trip failed: %s' % r, {'component': 'hufrt', 'input': ln[:300000], 'how': 'echo "<input>" | _build/cargo/release/zh entropy'})
    chk.cov['components']['hufrt'] = {'evaluations': len(rt_lines), 'compressor_descriptions': nrt}
    chk.cov['evaluations'] += len(rt_lines)
    # ---- (d) the literal bit stream itself: the compressor's stream = the modelled stream (codes last symbol first,
    # 1 bit, padding), byte for byte, in 1 and 4 streams; the decoder model reads the compressor's encoding back
    datas = []
    for _ in range(200 if thorough else 60):
        k = rng.choice([2, 3, 5, 16, 17, 60, 128, 200])
        base = rng.below(256 - k + 1)
        n = rng.choice([4, 5, 7, 8, 9, 63, 64, 300, 1025, 3000])
        d = bytes(base + min(rng.below(k), rng.below(k)) for _ in range(n))
        if len(set(d)) < 2:
            continue
        datas.append(d)
    code_lines, enc1, enc4 = [], [], []
    for d in datas:
        counts = [0] * (max(d) + 1)
        for b in d:
            counts[b] += 1
        code_lines.append('hufcodes ' + ','.join(map(str, counts)))
        enc1.append('hufenc 1 ' + d.hex())
        enc4.append('hufenc 4 ' + d.hex())
    rc = zh_par('entropy', code_lines)
    r1 = zh_par('entropy', enc1)
    r4 = zh_par('entropy', enc4)
    dec = model_run('hufdec', [r.split()[1] for r in r1])
    mlines, expect = [], []
    for d, c, a, b, m in zip(datas, rc, r1, r4, dec):
        codes = ' '.join(c.split()[1:])
        w = (m or 'missing').split()
        if w[0] != 'ok' or unhex(w[2] if len(w) > 2 else '-') != d:
            chk.tie_broken('correspondence:literal-stream', 'the decoder model does not read back the literals the compressor encoded: %s for %d bytes' % ((m or '')[:40], len(d)))
            break
        used = int(w[1])
        real1 = unhex(a.split()[1])[used:]
        mlines.append('%s %s' % (d.hex(), codes)); expect.append(('1', real1, d))
        if not b.startswith('ok '):
            continue
        real4 = unhex(b.split()[1])[used:]
        split = (len(d) + 3) // 4
        parts = [d[:split], d[split:2 * split], d[2 * split:3 * split], d[3 * split:]]
        if all(parts):
            sizes = [int.from_bytes(real4[2 * i:2 * i + 2], 'little') for i in range(3)]
            pos = 6
            for i, part in enumerate(parts):
                ln = sizes[i] if i < 3 else len(real4) - pos
                mlines.append('%s %s' % (part.hex(), codes)); expect.append(('4.%d' % i, real4[pos:pos + ln], part))
                pos += ln
    got = model_run('hufstream', mlines)
    same = 0
    for ln, (kind, real, d), g in zip(mlines, expect, got):
        if g != 'ok ' + hexs(real):
            chk.tie_broken('correspondence:literal-stream', 'the modelled Huffman literal stream (%s of %d symbols) differs from the one the compressor wrote: model %s real %s' % (
                kind, len(d), (g or '')[:60], hexs(real)[:60]))
            break
        same += 1
    chk.cov['components']['literal-stream'] = {'evaluations': len(mlines), 'streams_identical': same, 'inputs': len(datas)}
    chk.cov['evaluations'] += len(mlines)
    # ---- (d2) the table built from a histogram: build_from_counts (shape for the number of symbols that occur, weights
    # handed out by rank of the counts, canonical codes) = model/HufCounts.v, code for code; histograms with ties,
    # unused symbols in between, all alphabet sizes
    hists = []
    for d in datas:
        c = [0] * (max(d) + 1)
        for b in d:
            c[b] += 1
        hists.append(c)
    for n in list(range(2, 257)) if thorough else [2, 3, 4, 5, 7, 8, 9, 16, 17, 31, 32, 33, 64, 100, 128, 129, 200, 255, 256]:
        for style in range(3):
            L = min(256, n + rng.below(1 + min(40, 256 - n)))
            c = [0] * L
            pos = list(range(L))
            for i in range(L - 1, 0, -1):
                j = rng.below(i + 1)
                pos[i], pos[j] = pos[j], pos[i]
            for p in pos[:n]:
                c[p] = 1 + (rng.below(4) if style == 0 else rng.below(100000) if style == 1 else min(rng.below(9), rng.below(9)))
            while c and c[-1] == 0 and rng.below(2):
                c.pop()
            if sum(1 for x in c if x) >= 2:
                hists.append(c)
    hl = [','.join(map(str, c)) for c in hists]
    hreal = zh_par('entropy', ['hufcodes ' + x for x in hl])
    hmod = model_run('hufcounts', hl)
    hsame = 0
    for x, r, m in zip(hl, hreal, hmod):
        mc = (m or 'missing').split(' | ')
        if not r.startswith('ok ') or len(mc) != 2 or r[3:].strip() != mc[1].strip():
            chk.tie_broken('correspondence:table-from-counts', 'the modelled build_from_counts differs from the compressor for the histogram %s: model %s real %s' % (
                x[:200], (m or '')[:120], r[:120]))
            break
        hsame += 1
    chk.cov['components']['table-from-counts'] = {'evaluations': len(hl), 'tables_identical': hsame, 'alphabet_sizes': len(set(sum(1 for v in c if v) for c in hists))}
    chk.cov['evaluations'] += len(hl)
    # ---- (e) the FSE-compressed weight description: what the compressor writes for a weight list (table description +
    # two interleaved states) = description + the modelled two-state stream, byte for byte; the decoder model reads the
    # weights back (model of proofs/C13_WeightStream.v)
    wlists = []
    for _ in range(400 if thorough else 120):
        n = rng.choice([17, 18, 19, 20, 33, 64, 100, 127, 128, 200, 254, 255])
        style = rng.below(4)
        if style == 0:
            mx = 1 + rng.below(11)
            ws = [rng.below(mx + 1) for _ in range(n)]
        elif style == 1:
            ws = [1 + (i % 3 == 0) for i in range(n)]
        elif style == 2:
            ws = [0] * n
            for _ in range(2 + rng.below(12)):
                ws[rng.below(n)] = 1 + rng.below(8)
        else:
            ws = [min(11, 1 + rng.below(1 + rng.below(11))) for _ in range(n)]
        if len(set(ws)) < 2:
            ws[0] = (ws[0] + 1) % 12
        wlists.append(bytes(ws))
    # placements of the compressor's own weight multiset over up to 256 symbols (all but the last weight are written):
    # the source asserts that the compressed description stays below 128 bytes -- the one hypothesis left in
    # C02_compressor_huffman_section_from_the_literals -- observed here for every such placement
    nshape0 = len(wlists)
    for n in (list(range(18, 257)) if thorough else [18, 19, 24, 32, 33, 48, 64, 65, 96, 127, 128, 129, 160, 161, 162, 190, 191, 192, 193, 224, 255, 256]):
        sh = shapes[n - 2]
        if not sh:
            continue
        for L in sorted(set([n, min(256, n + n // 2), 256])):
            ws = list(sh) + [0] * (L - n)
            for i in range(L - 1, 0, -1):
                j = rng.below(i + 1)
                ws[i], ws[j] = ws[j], ws[i]
            if ws[-1] == 0:
                i = max(j for j in range(L) if ws[j])
                ws[-1], ws[i] = ws[i], ws[-1]
            if L - 1 > 16:
                wlists.append(bytes(ws[:-1]))
    wr = zh_par('entropy', ['fseenc2 6 1 ' + w.hex() for w in wlists])
    longest = 0
    for k, (w, r) in enumerate(zip(wlists, wr)):
        if k >= nshape0:
            if not r.startswith('ok '):
                chk.violation('the FSE encoder failed on the weights of a placement of the compressor\'s shape (%d written weights): %s' % (len(w), r[:60]),
                              {'component': 'weight-description-size', 'input': 'fseenc2 6 1 ' + w.hex(), 'how': 'echo "<input>" | _build/cargo/release/zh entropy'})
                continue
            ln = len(r.split()[1]) // 2
            longest = max(longest, ln)
            if ln >= 128:
                chk.violation('the compressed description of the weights of a placement of the compressor\'s shape has %d bytes: write_table asserts fewer than 128' % ln,
                              {'component': 'weight-description-size', 'input': 'fseenc2 6 1 ' + w.hex(), 'how': 'echo "<input>" | _build/cargo/release/zh entropy'})
    chk.cov['components']['weight-description-size'] = {'evaluations': len(wlists) - nshape0, 'longest_description_bytes': longest, 'asserted_below': 128}
    wl, wreal = [], []
    for w, r in zip(wlists, wr):
        if r.startswith('ok '):
            wl.append(w); wreal.append(unhex(r.split()[1]))
    wm = model_run('hufweights', ['%s %s' % (hexs(real), hexs(w)) for w, real in zip(wl, wreal)])
    nsame = nback = 0
    for w, real, m in zip(wl, wreal, wm):
        t = (m or 'missing').split()
        if t[0] != 'ok' and len(real) >= 128:
            continue                    # longer than a header byte can announce: the compressor would not emit it
        if t[0] != 'ok':
            chk.tie_broken('correspondence:weight-stream', 'the decoder model cannot read the weight description the compressor wrote for %d weights: %s' % (len(w), (m or '')[:40]))
            break
        used = int(t[1])
        if unhex(t[2]) != real[used:]:
            chk.tie_broken('correspondence:weight-stream', 'the modelled two-state weight stream for %d weights differs from the one the compressor wrote: model %s real %s' % (
                len(w), t[2][:60], hexs(real[used:])[:60]))
            break
        nsame += 1
        if len(real) >= 128:
            continue                    # a header byte below 128 cannot announce it: only the stream is compared
        if unhex(t[3]) != w:
            chk.tie_broken('correspondence:weight-stream', 'the decoder model reads other weights back than were written (%d weights)' % len(w))
            break
        nback += 1
    chk.cov['components']['weight-stream'] = {'evaluations': len(wl), 'streams_identical': nsame, 'weights_read_back': nback,
                                               'lengths': sorted(set(len(w) for w in wl))}
    chk.cov['evaluations'] += len(wl)
