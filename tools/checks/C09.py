"""C09 -- dictionary frames decode correctly; a missing dictionary is an error.

proof      : coq/props/C09.v (chunked copy = LZ77 copy; match into the dictionary = LZ77 copy on dictionary ++ output for every
             boundary alignment; sequence execution with a dictionary = execution with the content as earlier output;
             offsets beyond dictionary + output rejected; missing dictionary -> error; dictionary = starting state;
             reset after a dictionary frame = new decoder)
tie check  : implementation and extracted model on the same driver programs (dictionaries registered, frames named /
             unnamed + forced, several dictionaries, dictionary and plain frames mixed on one decoder)
oracle     : original data; libzstd's decoder given the same dictionary; RFC sequence execution on content ++ output
             (tools/synth.py) for hand-built dictionaries and frames that reach every boundary alignment
"""
from vlib import *
from checks.deccommon import *
import framegen, synth


def trained(rng, n, per):
    """[(dict, id, [frame items])] from libzstd's trainer and compressor"""
    out = []
    for idx in range(n):
        samples = [framegen.gen_content(rng, rng.choice(['small', 'small', 'tiny']))[0] for _ in range(14)]
        samples = [s if len(s) > 200 else s * 40 + b'x' for s in samples]
        rc, res, err = zh('codec', ['ztrain %d %s' % (rng.choice([600, 1000, 4000, 16000]), ' '.join(hexs(s) for s in samples))])
        w = res[0].split() if res else []
        if not w or w[0] != 'ok':
            continue
        d = bytes.fromhex(w[1])
        # the trainer only picks 4-byte ids; the id is a plain field of the dictionary, so give some dictionaries an id
        # that frames name with a 1-byte or 2-byte field
        k_id = idx % 3
        if k_id < 2:
            new_id = rng.range(1, 255) if k_id == 0 else rng.range(256, 65535)
            d = d[:4] + new_id.to_bytes(4, 'little') + d[8:]
        items, lines = [], []
        for k in range(per):
            s = rng.choice(samples)
            r = rng.below(4)
            if r == 0:   # input that shares material with the samples at varying distance
                a, b = rng.choice(samples), rng.choice(samples)
                s = a[:rng.below(len(a))] + rng.bytes(rng.below(40)) + b[rng.below(len(b)):]
            elif r == 1:
                s = s[:rng.choice([0, 1, 5, 50, 300])]
            p = framegen.libzstd_params(rng, len(s))
            p['flush'] = rng.choice([0, 0, 0, 64, 1000])
            nod = rng.below(3) == 0
            items.append({'content': s, 'params': p, 'named': not nod, 'dict': d})
            lines.append(framegen.zenc_line(s, p, dict_hex=hexs(d), nodictid=nod))
        rr = zh_par('codec', lines)
        frs = []
        for it, r in zip(items, rr):
            ww = r.split()
            if ww and ww[0] == 'ok':
                it['frame'] = bytes.fromhex(ww[1])
                frs.append(it)
        out.append((d, int.from_bytes(d[4:8], 'little'), frs))
    return out


def run(chk):
    rng = SplitMix64(chk.seed).fork('C09')
    thorough = chk.tier == 'thorough'
    chk.prove('props/C09.v')
    if not prepare(chk):
        return
    nbad = [0]

    def bad(what, rep):
        if nbad[0] < 5:
            nbad[0] += 1
            rep['how'] = 'echo "<program>" | _build/cargo/release/zh prog'
            chk.violation(what, rep)

    # ---- component 1: trained dictionaries, libzstd frames
    tr = trained(rng, 4 if thorough else 2, 40 if thorough else 14)
    lines, meta = [], []
    for d, did, frs in tr:
        for f in frs:
            force = '' if f['named'] else 'force=%d ' % did
            mode = rng.below(3)
            body = {0: 'Ba C', 1: 'B?b1 R50 B?b1 R7 B?a Zr,1000', 2: 'By300 C B?a C'}[mode]
            lines.append('dict=%s src=%s I %s%s K Q' % (hexs(d), hexs(f['frame']), force, body))
            meta.append(('trained', f, d))
    # ---- component 2: hand-built dictionaries, frames reaching every alignment with the boundary
    nsyn = 0
    feats = {}
    for idx in range(6 if thorough else 3):
        d, info = synth.make_dictionary(rng, dict_id=[None, rng.range(1, 255), rng.range(256, 65535)][idx % 3])
        for named in (True, False):
            for f in synth.make_dict_boundary_frames(rng, 50 if thorough else 22, info, name_dict=named):
                force = '' if named else 'force=%d ' % info['id']
                lines.append('dict=%s src=%s I %sBa C K Q' % (hexs(d), hexs(f['frame']), force))
                meta.append(('boundary', f, d))
                nsyn += 1
                for x in f['features']:
                    feats[x] = feats.get(x, 0) + 1
    impl, mod, dis = run_programs(chk, 'dict-frames', lines)
    # reference decoder on the valid ones
    zl = ['zdec %s %s' % (hexs(f['frame']), hexs(d)) for (k, f, d) in meta]
    zr = zh_par('codec', zl)
    libz_agree = 0
    for i, ((kind, f, d), t) in enumerate(zip(meta, impl)):
        exp = f['content']
        if f.get('ambiguous'):
            continue          # dictionary referenced after a window's worth of output: only the model tie applies
        got = delivered(t)
        failed = any(x.endswith(':err') for x in t if x[0] in 'IBZ' or x.startswith('force'))
        rep = {'component': kind, 'program': lines[i][:400000], 'features': f.get('features'), 'params': f.get('params')}
        if exp is None:
            if not failed:
                bad('a match offset reaching beyond dictionary plus output was accepted (%d bytes delivered)' % len(got), rep)
            continue
        if failed or got != exp:
            bad('dictionary frame (%s, %s) not decoded to the original data: %s' % (kind, 'named' if f.get('named') else 'forced', 'error ' + ' '.join(x for x in t if x.endswith(':err')) if failed else 'wrong bytes (%d vs %d)' % (len(got), len(exp))), rep)
            continue
        w = zr[i].split()
        if w and w[0] == 'ok' and unhex(w[1] if len(w) > 1 else '-') == exp:
            libz_agree += 1
        elif kind == 'trained':
            bad('reference decoder disagrees on a libzstd dictionary frame: %s' % zr[i][:60], rep)
    chk.add_samples('dict-frames', len(lines), len(set(lines)), [{'kind': meta[i][0], 'features': meta[i][1].get('features'), 'program': lines[i][:160]} for i in (0, len(lines) - 1)],
                    rule='libzstd-trained dictionaries (4 target sizes) x inputs (samples, spliced samples, short prefixes) x libzstd levels/window logs/flush x dictionary id present / absent+forced x 3 decoding schedules; hand-built dictionaries (perturbed tables, random content of 8..5000 bytes, random repeat offsets) x frames with offsets at every boundary alignment')
    chk.cov['components']['dict-frames'].update({'boundary_features': feats, 'synthetic_frames': nsyn, 'valid_frames_on_which_libzstd_agrees': libz_agree,
                                                  'must_reject_frames': sum(1 for m in meta if m[1]['content'] is None)})

    # ---- component 3: missing / wrong dictionary
    lines, meta = [], []
    alld = tr[:]
    for d, did, frs in tr:
        others = [x for x in alld if x[1] != did]
        for f in frs[: (12 if thorough else 5)]:
            if not f['named']:
                continue
            lines.append('src=%s I Q B?a C' % hexs(f['frame']))
            meta.append('none-registered')
            if others:
                o = rng.choice(others)
                lines.append('dict=%s src=%s I Q B?a C' % (hexs(o[0]), hexs(f['frame'])))
                meta.append('other-registered')
                lines.append('dict=%s src=%s I force=%d' % (hexs(o[0]), hexs(f['frame']), did))
                meta.append('force-unregistered')
    impl, mod, dis = run_programs(chk, 'missing-dict', lines)
    for i, t in enumerate(impl):
        if meta[i] == 'force-unregistered':
            if 'force:err' not in t and 'I:err' not in t:
                bad('forcing a dictionary that was never registered succeeded', {'component': 'missing-dict', 'program': lines[i][:400000]})
        elif 'I:err' not in t:
            bad('a frame naming a dictionary the decoder was not given was not refused (%s): %s' % (meta[i], ' '.join(t[:6])[:100]), {'component': 'missing-dict', 'program': lines[i][:400000]})
    chk.add_samples('missing-dict', len(lines), len(set(lines)), [{'kind': meta[i], 'program': lines[i][:160]} for i in range(min(2, len(lines)))],
                    rule='named dictionary frames on a decoder with no dictionary / with only a different dictionary / force_dict of an unregistered id')

    # ---- component 4: histories mixing dictionaries and plain frames on one decoder
    plain = framegen.make_libzstd_frames(rng, 10 if thorough else 5, 'small')
    lines, exps = [], []
    for _ in range(80 if thorough else 30):
        regs = ' '.join('dict=%s' % hexs(d) for d, did, frs in tr)
        parts, exp = [regs], []
        for step in range(rng.range(2, 6)):
            r = rng.below(4)
            if r == 0 and plain:
                f = rng.choice(plain)
                parts.append('src=%s I Ba C' % hexs(f['frame']))
                exp.append(('plain', f['content']))
            elif r == 1:
                # a frame that needs a dictionary but does not name it, NOT forced: must not decode with a stale dictionary
                d, did, frs = rng.choice(tr)
                un = [f for f in frs if not f['named']]
                if not un:
                    continue
                f = rng.choice(un)
                parts.append('src=%s I B?a C' % hexs(f['frame']))
                exp.append(('unforced', f))
            else:
                d, did, frs = rng.choice(tr)
                if not frs:
                    continue
                f = rng.choice(frs)
                parts.append('src=%s I %sBa C' % (hexs(f['frame']), '' if f['named'] else 'force=%d ' % did))
                exp.append(('dict', f['content']))
        lines.append(' '.join(parts))
        exps.append(exp)
    impl, mod, dis = run_programs(chk, 'histories', lines)
    # expected behaviour of the unforced frames = behaviour on a fresh decoder without dictionary (and libzstd without dictionary)
    for i, (t, exp) in enumerate(zip(impl, exps)):
        segs, cur = [], None
        for x in t:
            if x == '|':
                cur = []
                segs.append(cur)
            elif cur is not None:
                cur.append(x)
        if len(segs) != len(exp):
            continue
        for (kind, e), s in zip(exp, segs):
            got = delivered(s)
            if kind in ('plain', 'dict'):
                if got != e or any(x.endswith(':err') for x in s):
                    bad('on a decoder holding several dictionaries a %s frame was not decoded to its original after %d earlier frames' % (kind, segs.index(s)),
                        {'component': 'histories', 'program': lines[i][:400000]})
                    break
            else:
                rc, fr, err = zh('prog', ['src=%s I B?a C' % hexs(e['frame'])])
                fresh = canon_tokens(fr[0], False)
                fresh = fresh[fresh.index('|') + 1:] if '|' in fresh else fresh
                if [x for x in s] != fresh:
                    bad('a frame that does not use a dictionary decoded differently after a dictionary frame than on a new decoder: %s vs %s' % (' '.join(s)[:80], ' '.join(fresh)[:80]),
                        {'component': 'histories', 'program': lines[i][:400000]})
                    break
    chk.add_samples('histories', len(lines), len(set(lines)), [{'program': lines[0][:200]}],
                    rule='2-5 frames on one decoder with all dictionaries registered: plain frames, named dictionary frames, unnamed+forced frames, unnamed frames without force (must behave as on a new decoder)')
