"""shared by the encoder-side checks C02 / C15 / C16"""
from vlib import *
from checks.deccommon import prepare, hexs, unhex, canon_tokens, delivered
from xxh64 import xxh64
import framegen, encgen

SLICE = 131072


def path_contents(rng, thorough):
    """inputs aimed at the data-dependent paths of the Fastest level"""
    out = []
    def add(kind, d):
        out.append((kind, bytes(d)))
    add('empty', b'')
    add('one-byte', b'x')
    for n in (SLICE - 1, SLICE, SLICE + 1, 2 * SLICE):
        add('block-multiple-random-%d' % n, rng.bytes(n) if n <= SLICE + 1 else rng.bytes(1000) * (n // 1000) + rng.bytes(n % 1000))
    add('rle-blocks', bytes([7]) * (SLICE + 500))
    add('rle-then-data', bytes([9]) * SLICE + encgen.literals(rng, 3000, 'text'))
    # Huffman table reuse: consecutive blocks with the same histogram order; then a raw block in between
    t1 = encgen.literals(rng, SLICE, 'skew')
    add('treeless-reuse', t1 + t1[::-1][:50000])
    add('raw-between-similar', t1[:SLICE] + rng.bytes(SLICE) + t1[::-1][:40000])
    # nearly incompressible full blocks followed by a permutation of themselves
    for pp in (0.0005, 0.001, 0.002, 0.004):
        wb = encgen.weak_skew(rng, SLICE, pp)
        add('weak-skew-pair', wb + wb[::-1][:60000])
    # literal counts around the size-format thresholds (no matches: bytes over a wide alphabet without repeats of 5)
    for n in (1023, 1024, 1025, 1026, 16383, 16384, 16385):
        add('literals-%d' % n, encgen.no_repeat_skewed(rng, n))
        add('literals-%d-after-block' % n, bytes([3]) * SLICE + encgen.no_repeat_skewed(rng, n))
    # a block whose literals do not pay for a Huffman table (stored raw inside a compressed block), then a block with the
    # same code-length order whose literals do
    for k, times in ((200, 6), (128, 10), (256, 5)):
        b1, b2 = encgen.flat_then_skew(rng, k, times)
        add('flat-then-skew-%d' % k, b1 + b2)
    for k, times in ((200, 6), (180, 7), (230, 5)):
        b1, b2 = encgen.flat_then_flat(rng, k, times)
        add('flat-then-flat-%d' % k, b1 + b2)
    # blocks whose number of sequences sweeps across the boundary between the one-byte and the two-byte form of the
    # sequence-count field (127 / 128): a unique 5-byte separator, then a copy of 8 bytes of a random prefix, n times
    P = rng.bytes(96)
    for n in range(120, 138):
        d = bytearray(P)
        for i in range(n):
            d += bytes([0xF0 + (i % 13), i & 0xFF, (i * 7) & 0xFF, 0xA5 ^ (i & 0x3F), (i >> 8) + 1])
            o = (i * 11) % 80
            d += P[o:o + 9]
        add('sequence-count-%d' % n, bytes(d))
    # > 128 distinct symbols (FSE-compressed weights or none), few symbols (direct weights)
    add('wide-alphabet', encgen.literals(rng, 40000, 'wide'))
    add('two-symbols', encgen.literals(rng, 5000, 'two'))
    # long match lengths / literal lengths with many extra bits
    pat = rng.bytes(300)
    add('long-matches', pat + rng.bytes(70000) + pat * 200)
    add('long-literals-then-match', rng.bytes(66000) + pat + rng.bytes(10) + pat)
    # far end of the window: the start of the block repeated at its very end
    head = rng.bytes(64)
    add('far-match', head + encgen.literals(rng, SLICE - 128, 'text') + head)
    # material straddling the block boundary
    add('straddle', encgen.literals(rng, SLICE - 30, 'text') + pat[:60] + encgen.literals(rng, 5000, 'text') + pat[:60])
    if thorough:
        for _ in range(12):
            d, k = framegen.gen_content(rng, 'large')
            add('gen-' + k, d)
    return out


def general_contents(rng, n):
    out = []
    for _ in range(n):
        d, k = framegen.gen_content(rng, rng.choice(['tiny', 'small', 'small', 'medium']))
        out.append(('gen-' + k, d))
    return out


def structure(frame, data, window, hash_on=True, slice_size=SLICE):
    """strict structural validation of a frame against the input it was made from -> list of complaints"""
    bad = []
    w = framegen.walk_blocks(frame)
    if w is None:
        return ['frame does not parse into a header and a chain of blocks ending in a last block']
    h, blocks, end = w
    if frame[:4] != bytes.fromhex('28b52ffd'):
        bad.append('magic')
    if h['checksum'] != (1 if hash_on else 0):
        bad.append('checksum flag %s' % h['checksum'])
    if h.get('single') or h.get('dict_id') or h.get('fcs') is not None:
        bad.append('unexpected header fields')
    declared = h.get('window')
    if declared is None or declared < window:
        bad.append('declared window %s smaller than the matcher window %d' % (declared, window))
    if declared is not None and any(b[3] > declared for b in blocks if b[2] in (0, 1)):
        bad.append('a block regenerates more than the declared window %d' % declared)
    if end != len(frame):
        bad.append('%d bytes after the end of the frame' % (len(frame) - end))
    nlast = sum(1 for b in blocks if b[1])
    if nlast != 1 or not blocks[-1][1]:
        bad.append('last-block flags: %s' % [b[1] for b in blocks])
    exp_chunks = [data[i:i + slice_size] for i in range(0, len(data), slice_size)]
    if len(data) % slice_size == 0:
        exp_chunks.append(b'')
    if len(blocks) != len(exp_chunks):
        bad.append('%d blocks for %d bytes (expected %d)' % (len(blocks), len(data), len(exp_chunks)))
    for (p, last, ty, size, body), chunk in zip(blocks, exp_chunks):
        if body > 131072 or size > 131072:
            bad.append('block at %d: stored size %d / size field %d exceeds 128 KiB' % (p, body, size))
        if ty in (0, 1) and size != len(chunk):
            bad.append('block at %d: %s block of %d bytes for a %d byte chunk' % (p, 'raw' if ty == 0 else 'RLE', size, len(chunk)))
        if ty == 0 and frame[p + 3:p + 3 + size] != chunk:
            bad.append('raw block at %d differs from the input' % p)
        if ty == 1 and chunk != bytes([frame[p + 3]]) * len(chunk):
            bad.append('RLE block at %d for a chunk that is not a run' % p)
        if ty == 2 and body >= len(chunk):
            bad.append('compressed block at %d (%d bytes) is not smaller than its %d byte chunk' % (p, body, len(chunk)))
    if hash_on and frame[end - 4:end] != (xxh64(data) & 0xFFFFFFFF).to_bytes(4, 'little'):
        bad.append('checksum trailer is not XXH64 of the input')
    limit = len(data) + 6 + 3 * len(exp_chunks) + (4 if hash_on else 0)
    if len(frame) > limit:
        bad.append('frame of %d bytes for %d input bytes exceeds input + framing (%d)' % (len(frame), len(data), limit))
    return bad


def oracle_bodies(frame, data, slice_size=SLICE):
    """the bodies the model's block-encoder oracle must replay: one per chunk that is not a run"""
    h, blocks, end = framegen.walk_blocks(frame)
    chunks = [data[i:i + slice_size] for i in range(0, len(data), slice_size)]
    out = []
    for (p, last, ty, size, body), chunk in zip(blocks, chunks):
        if chunk and chunk == chunk[:1] * len(chunk):
            continue
        out.append(frame[p + 3:p + 3 + body] if ty == 2 else chunk)
    return out


def model_line(level, frame, data, window, script, slice_size=SLICE, hash_on=True):
    bodies = oracle_bodies(frame, data, slice_size) if level == 1 else []
    return '%d %d %d %s %s %s %s' % (level, slice_size, window, frame[-4:].hex() if hash_on else '-',
                                     ';'.join(hexs(b) for b in bodies) or '-', hexs(data), ','.join(str(x) for x in script) or '0')


def decode_checks(chk, comp, items, nbad, describe):
    """items: [(frame, data, label)] -> reports violations (reference decoder, this crate's decoder all at once and
    block by block with the output drained to the window)"""
    zl = ['zdec %s' % hexs(f) for f, d, l in items]
    zr = zh_par('codec', zl)
    pl = []
    for f, d, l in items:
        pl.append('src=%s I Ba C' % hexs(f))
        pl.append('src=%s I %s Zr,1000000' % (hexs(f), 'B?b1 R100000000 ' * min(6, max(1, len(d) // SLICE + 2))))
    pr = zh_par('prog', pl)
    for i, (f, d, l) in enumerate(items):
        w = (zr[i] or 'missing').split()
        if w[0] != 'ok' or unhex(w[1] if len(w) > 1 else '-') != d:
            if nbad[0] < 5:
                nbad[0] += 1
                chk.violation('the reference decoder does not restore the input from the emitted frame (%s): %s' % (l, ' '.join(w)[:80]),
                              dict(describe(i), component=comp))
            continue
        for j, how in ((2 * i, 'decoding all blocks at once'), (2 * i + 1, 'decoding block by block with the output drained to the window')):
            t = canon_tokens(pr[j] or '', False)
            got = delivered(t)
            if got != d or any(x.endswith((':err', ':panic')) for x in t):
                if nbad[0] < 5:
                    nbad[0] += 1
                    chk.violation("this crate's decoder does not restore the input from the emitted frame (%s, %s): %s" % (
                        l, how, ' '.join(x for x in t if x.endswith((':err', ':panic')))[:80] or 'wrong bytes'), dict(describe(i), component=comp))
                break
