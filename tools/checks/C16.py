"""C16 -- compression is correct for every well-behaved user-supplied matcher.

proof      : coq/props/C16.v (frame-level behaviour for every block encoder / matcher; value<->code mappings and sequence
             counts for every number a valid parse can contain)
tie check  : frames produced with a scripted user matcher = frames of the frame-level model with the bodies replayed
oracle     : a user-implemented Matcher (harness) replays random VALID parses of random data (any sequence count up to one
             per 3 bytes, zero-length literal runs, minimum / maximum lengths, offsets anywhere in the declared window,
             several frames through one compressor); the frame must decode to the input with libzstd and this crate's decoder
"""
from checks.enccommon import *


def gen_frame_spec(rng, window, big):
    """-> (spec string, data) : 1-4 blocks, each with a valid parse"""
    hist = b''
    specs = []
    nblocks = rng.choice([1, 1, 2, 3, 4])
    for bi in range(nblocks):
        r = rng.below(12)
        style = None
        kw = {}
        if r == 0:      # very many tiny sequences
            target = rng.choice([3000, 9000, 98304 if big else 12000])
            kw = dict(ll_choices=[0], ml_choices=[3])
        elif r == 1:    # every literal length zero / every match length minimal: single-symbol FSE tables
            target = rng.choice([200, 2000])
            kw = dict(ll_choices=[0], ml_choices=[3, 3, 3, 4])
        elif r == 2:    # > 1024 literals of one symbol, then matches
            target = rng.choice([1200, 3000])
            style = 'single'
            kw = dict(ll_choices=[1100, 0, 1], ml_choices=[3, 5, 9])
        elif r == 3:    # long lengths with many extra bits
            target = rng.choice([70000, 131072]) if big else 20000
            kw = dict(ll_choices=[0, 5000, 16384, 40000, 65535, 65536], ml_choices=[3, 1000, 32771, 65539, 131074])
        elif r == 4:    # offsets at the far end of the window
            target = rng.choice([500, 5000])
            kw = dict(far=True)
        elif r == 5:    # no sequences at all, > 1024 literals (Huffman) / <= 1024 (raw literals)
            target = rng.choice([1024, 1025, 1100, 5000, 16384, 16385])
            kw = dict(ll_choices=[target])
        else:
            target = rng.choice([1, 2, 3, 7, 100, 1000, 1025, 4000, 20000 if big else 6000])
        if bi == 0 and r in (1, 4) and not hist:
            d0 = encgen.literals(rng, rng.choice([50, 700]), 'random')
            specs.append(encgen.block_spec(d0, []))
            hist += d0
        target = min(target, 131072)
        d, seqs = encgen.gen_parse(rng, hist[-window:] if window < len(hist) else hist, window, target, style=style, **kw)
        if not d:
            continue
        specs.append((d, seqs))
        hist += d
    last_partial = rng.below(2) == 0
    specs = [s if isinstance(s, str) else encgen.block_spec(s[0], s[1], last_partial and i == len(specs) - 1) for i, s in enumerate(specs)]
    return '+'.join(specs), hist


def run(chk):
    rng = SplitMix64(chk.seed).fork('C16')
    thorough = chk.tier == 'thorough'
    chk.prove('props/C16.v')
    if not prepare(chk):
        return
    nbad = [0]
    lines, datas = [], []
    n = 900 if thorough else 300
    for i in range(n):
        window = rng.choice([1024, 4096, 131072, 131072, 1 << 20, 1000, 3000, 5000, 200000, 1000000])
        big = i % 25 == 0
        nframes = rng.choice([1, 1, 1, 2, 3])
        specs, ds = [], []
        for _ in range(nframes):
            s, d = gen_frame_spec(rng, window, big)
            specs.append(s)
            ds.append(d)
        lines.append('rencm 1 %d %s' % (window, '/'.join(specs)))
        datas.append((ds, window))
    # pairs of nearly incompressible literal blocks with the same histogram order (the second is a permutation of the
    # first): the first one's Huffman attempt is abandoned or its block stored raw at some point of the scan, and the
    # second must then not refer to a table the decoder never received
    for i in range(240 if thorough else 80):
        pp = 0.10 + 0.30 * rng.below(1000) / 1000.0
        nn = 1100 + rng.below(900)
        B = encgen.weak_skew(rng, nn, pp)
        C = B[::-1]
        pre = rng.bytes(40)
        variant = rng.below(3)
        if variant == 0:
            spec = '%s+%s+%s' % (encgen.block_spec(pre, []), encgen.block_spec(B, []), encgen.block_spec(C, []))
            d = pre + B + C
        elif variant == 1:
            B2 = B + pre[5:8]
            spec = '%s+%s+%s' % (encgen.block_spec(pre, []), encgen.block_spec(B2, [(nn, nn + 35, 3)]), encgen.block_spec(C, []))
            d = pre + B2 + C
        else:
            spec = '%s+%s+%s+%s' % (encgen.block_spec(pre, []), encgen.block_spec(B, []), encgen.block_spec(rng.bytes(300), []), encgen.block_spec(C, []))
            d = None
        if d is None:
            d = b''.join(unhex(b.split(':')[0]) for b in spec.split('+'))
        lines.append('rencm 1 131072 %s' % spec)
        datas.append(([d], 131072))
    # a block whose literals do not pay for a Huffman table (they go out raw inside a compressed block, after which no
    # table is known to the decoder), then a literal-only block with the same exactly flat histogram whose literals do pay
    for k, times in ((200, 6), (180, 7), (230, 5), (200, 8)) if thorough else ((200, 6), (180, 7)):
        b1, b2 = encgen.flat_then_flat(rng, k, times, first_len=rng.range(15000, 40000), second_len=rng.range(30000, 60000))
        nl = k * times
        spec = '%s+%s' % (encgen.block_spec(b1, [(nl, nl, len(b1) - nl)]), encgen.block_spec(b2, []))
        lines.append('rencm 1 131072 %s' % spec)
        datas.append(([b1 + b2], 131072))
        pre = rng.bytes(2000)
        spec = '%s+%s+%s' % (encgen.block_spec(pre, []), encgen.block_spec(b1, [(nl, nl, len(b1) - nl)]), encgen.block_spec(b2, []))
        lines.append('rencm 1 131072 %s' % spec)
        datas.append(([pre + b1 + b2], 131072))
    # exact sequence counts at the boundaries of the three forms of the sequence-count field
    for cnt in ((126, 127, 128, 129, 255, 256, 257, 32511, 32512, 32513) if thorough else (127, 128, 129, 256)):
        h0 = rng.bytes(64)
        cur = bytearray()
        seqs = []
        for j in range(cnt):
            ll = 1 if cnt < 1000 else rng.choice([0, 1])
            cur += rng.bytes(ll)
            whole = h0 + bytes(cur)
            off = rng.range(1, min(len(whole), 60))
            cur += encgen.fast_copy(whole, off, 3)
            seqs.append((ll, off, 3))
        lines.append('rencm 1 131072 %s+%s' % (encgen.block_spec(h0, []), encgen.block_spec(bytes(cur), seqs)))
        datas.append(([h0 + bytes(cur)], 131072))
    # offset codes with a flat histogram over many codes plus one rare code (the normalised counts then exceed the
    # largest table the format allows for offsets and must be scaled down)
    for i in range(24 if thorough else 8):
        h0 = rng.bytes(70000)
        cur = bytearray()
        seqs = []
        lo = rng.choice([4, 4, 5])
        cnt = rng.choice([24, 28, 31, 31])
        codes = [lo] + [c for c in range(lo + 1, 16) for _ in range(cnt)]
        for j in range(len(codes) - 1, 0, -1):
            k = rng.below(j + 1)
            codes[j], codes[k] = codes[k], codes[j]
        for c in codes:
            ll = rng.choice([1, 2, 3])
            cur += rng.bytes(ll)
            ov = (1 << c) + rng.below(1 << c)          # offset value with code c; the distance is ov - 3
            off = max(1, ov - 3)
            whole = h0 + bytes(cur)
            ml = rng.choice([8, 16])
            cur += encgen.fast_copy(whole, off, ml)
            seqs.append((ll, off, ml))
        lines.append('rencm 1 131072 %s+%s' % (encgen.block_spec(h0, []), encgen.block_spec(bytes(cur), seqs)))
        datas.append(([h0 + bytes(cur)], 131072))
    # two literal-only blocks in a row, the second one's alphabet = the first one's plus one byte that fills a hole and is
    # (one of) the most frequent: table reuse must not be chosen when the old table cannot encode the new byte
    for i in range(120 if thorough else 40):
        nsym = rng.choice([2, 3, 4, 5, 8, 9, 16, 17, 32, 33, 64, 65, 66, 128, 129, rng.range(2, 200)])
        universe = list(range(rng.below(40), 256))
        for j in range(len(universe) - 1, 0, -1):
            k = rng.below(j + 1)
            universe[j], universe[k] = universe[k], universe[j]
        S = sorted(universe[:nsym])
        holes = [v for v in range(S[0] + 1, S[-1]) if v not in S]
        if not holes:
            continue
        h = rng.choice(holes)
        top = rng.choice(S)
        def draw(alpha, heavy, n):
            return bytes(heavy[rng.below(len(heavy))] if rng.below(3) == 0 else alpha[rng.below(len(alpha))] for _ in range(n))
        n1, n2 = rng.choice([1100, 3000]), rng.choice([1100, 3000])
        B1 = bytes(S) * 2 + draw(S, [top], n1)
        B2 = bytes(S + [h]) * 2 + draw(S + [h], [top, h] if rng.below(2) else [h], n2)
        lines.append('rencm 1 131072 %s+%s' % (encgen.block_spec(B1, []), encgen.block_spec(B2, [])))
        datas.append(([B1 + B2], 131072))
    # the recorded replays of repaired findings run first
    for fn in ('F5_rencm_line.txt', 'F9_rencm_line.txt'):
        try:
            ln = open(os.path.join(VERIF, 'findings', fn)).read().strip()
            specs = ln.split()[3].split('/')
            ds = [b''.join(unhex(b.lstrip('p').split(':')[0]) for b in s.split('+')) for s in specs]
            lines.insert(0, ln)
            datas.insert(0, (ds, int(ln.split()[2])))
        except OSError:
            pass
    res = zh_par('codec', lines)
    items, mlines, mexp = [], [], []
    nseq_max = 0
    for ln, (ds, window), r in zip(lines, datas, res):
        w = (r or 'missing').split()
        if w[0] != 'ok' or len(w) - 1 != len(ds):
            if nbad[0] < 5:
                nbad[0] += 1
                chk.violation('compression with a well-behaved user matcher %s' % ('panicked' if w[0] == 'panic' else 'failed: ' + ' '.join(w)[:60]),
                              {'component': 'user-matcher', 'command': ln[:400000], 'how': 'echo "<command>" | _build/cargo/release/zh codec   (rencm <level> <window> <frames: blocks joined by +, block = data-hex:ll,off,ml;...>)'})
            continue
        for d, fh in zip(ds, w[1:]):
            f = unhex(fh)
            items.append((f, d, 'user matcher, window %d' % window, ln))
            h = framegen.parse_frame_header(f)
            need = max(window, 131072)
            if h and (h.get('window') or 0) < need and nbad[0] < 5:
                nbad[0] += 1
                chk.violation('declared window %s is smaller than the matcher window / the maximum block size (%d)' % (h.get('window'), need),
                              {'component': 'user-matcher', 'command': ln[:400000], 'how': 'echo "<command>" | _build/cargo/release/zh codec'})
        nseq_max = max(nseq_max, max((b.count(';') + 1) for s in ln.split()[3].split('/') for b in s.split('+')))
    decode_checks(chk, 'user-matcher', [(f, d, l) for f, d, l, ln in items], nbad,
                  lambda i: {'command': items[i][3][:400000], 'how': 'echo "<command>" | _build/cargo/release/zh codec ; decode the printed frames'})
    hist = {}
    for f, d, l, ln in items:
        wb = framegen.walk_blocks(f)
        if wb:
            for b in wb[1]:
                hist[{0: 'raw', 1: 'rle', 2: 'compressed'}[b[2]]] = hist.get({0: 'raw', 1: 'rle', 2: 'compressed'}[b[2]], 0) + 1
    chk.add_samples('user-matcher', len(items), len(set(f for f, d, l, ln in items)), [{'command': lines[2][:160]}, {'command': lines[-1][:160]}],
                    rule='valid parses generated together with the data (literal runs from six alphabet styles incl. one symbol and >128 symbols; matches copied from earlier data at offsets 1,2,3, window end, random; lengths 3..131074; classes: only tiny sequences up to 32768 per block, all-zero literal lengths, >1024 one-symbol literals, long lengths, far offsets, no sequences around the 1024 / 16384 literal thresholds); 1-4 blocks per frame, 1-3 frames per compressor, windows 1 KiB..1 MiB; recorded replays of findings F5 and F9 first')
    chk.cov['components']['user-matcher'].update({'max_sequences_in_one_block': nseq_max, 'block_types': hist})
