"""C15 -- compressor output is structurally valid and never larger than raw framing.

proof      : coq/props/C15.v (for every block encoder: size bound of the frame, per-block bound, blocks tile the input,
             exactly one last block, header read back)
tie check  : frames of the real compressor = frames of the frame-level model (Fastest: bodies replayed)
oracle     : strict structural walk of every emitted frame against its input (independent Python parser), reference
             decoder, and this crate's decoder run block by block with the output drained to the declared window (an
             offset beyond the window or beyond the data produced so far is then an error)
"""
from checks.enccommon import *


def run(chk):
    rng = SplitMix64(chk.seed).fork('C15')
    thorough = chk.tier == 'thorough'
    chk.prove('props/C15.v')
    if not prepare(chk):
        return
    nbad = [0]
    contents = path_contents(rng, thorough)
    # incompressible and nearly incompressible inputs, lengths around multiples of the block size
    for n in (0, 1, 2, 100, SLICE - 1, SLICE, SLICE + 1, 2 * SLICE - 1, 2 * SLICE, 2 * SLICE + 1, 3 * SLICE):
        contents.append(('random-%d' % n, rng.bytes(n)))
        nearly = bytearray(rng.bytes(n))
        for k in range(0, n, 997):
            nearly[k:k + 6] = b'zzzzzz'[:max(0, min(6, n - k))]
        contents.append(('nearly-random-%d' % n, bytes(nearly)))
    # small nearly incompressible inputs: the compressed form lands within a few bytes of the raw size
    for i in range(400 if thorough else 160):
        contents.append(('weak-skew', encgen.weak_skew(rng, 1100 + rng.below(2000), 0.10 + 0.30 * rng.below(1000) / 1000.0)))
    contents += general_contents(rng, 80 if thorough else 30)
    lines, meta = [], []
    for kind, d in contents:
        for level in (0, 1):
            lines.append('renc %d %s %d' % (level, hexs(d), rng.choice([0, 0, 4096])))
            meta.append((kind, level, d))
    res = zh_par('codec', lines)
    items, mlines, mexp = [], [], []
    for (kind, level, d), ln, r in zip(meta, lines, res):
        w = (r or 'missing').split()
        if w[0] != 'ok':
            if nbad[0] < 5:
                nbad[0] += 1
                chk.violation('the compressor %s for %s input (level %d)' % ('panicked' if w[0] == 'panic' else 'failed', kind, level),
                              {'component': 'structure', 'command': ln[:300000], 'how': 'echo "<command>" | _build/cargo/release/zh codec'})
            continue
        f = unhex(w[1])
        complaints = structure(f, d, SLICE)
        if complaints and nbad[0] < 5:
            nbad[0] += 1
            chk.violation('malformed or oversized frame for %s input at level %d: %s' % (kind, level, '; '.join(complaints)[:300]),
                          {'component': 'structure', 'command': ln[:300000], 'how': 'echo "<command>" | _build/cargo/release/zh codec ; walk the printed frame'})
        items.append((f, d, '%s, level %d' % (kind, level), ln))
        if not complaints:
            mlines.append(model_line(level, f, d, SLICE, []))
            mexp.append(f)
    decode_checks(chk, 'structure', [(f, d, l) for f, d, l, ln in items], nbad,
                  lambda i: {'command': items[i][3][:300000], 'how': 'echo "<command>" | _build/cargo/release/zh codec ; decode the printed frame'})
    mod = model_run('frame', mlines, timeout=1500)
    ndis = sum(1 for exp, got in zip(mexp, mod) if got != 'ok ' + hexs(exp))
    if ndis:
        i = next(i for i, (exp, got) in enumerate(zip(mexp, mod)) if got != 'ok ' + hexs(exp))
        chk.tie_broken('correspondence:frame-model', 'the frame-level model does not reproduce the real frame (%d of %d): %s' % (ndis, len(mexp), mlines[i][:120]))
    chk.cov['disagreements_checked'] += ndis
    worst = max(((len(f) - len(d)), len(d)) for f, d, l, ln in items) if items else (0, 0)
    chk.add_samples('structure', len(items), len(set(f for f, d, l, ln in items)), [{'kind': meta[0][0], 'command': lines[0][:120]}, {'kind': meta[-1][0], 'command': lines[-1][:120]}],
                    rule='path-directed inputs, random and nearly-random inputs of length 0,1,2,100 and k*128 KiB -1/0/+1 (k=1..3), generated contents x {Uncompressed, Fastest}')
    chk.cov['components']['structure'].update({'largest_overhead_bytes': worst[0], 'for_input_bytes': worst[1], 'frames_model_vs_real': len(mlines)})
