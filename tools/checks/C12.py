"""C12 -- FSE tables equal the specification's; FSE encoder and decoder are exact inverses.

proof      : coq/props/C12.v (predefined tables and distributions = libzstd's; state ranges partition the table for
             every accuracy log 5..9 and probability; the spreading step is a permutation) over generated constants and
             the decoder model coq/model/FseDec.v
tie check  : decoding tables for valid, boundary and malformed descriptions through implementation and extracted
             model; the compressor's normalisation, table writer and state tables through hooks
oracle     : RFC 8878 4.1 transcribed independently in Python (description reader/writer, table construction)
"""
from vlib import *
from checks.deccommon import *
import framegen, entropy_spec, synth


def random_distribution(rng, al, max_symbol):
    """a normalized distribution: positive entries, 'less than one' (-1) entries and zero runs, summing to 2^al"""
    total = 1 << al
    nsym = rng.range(1, min(max_symbol + 1, 60))
    probs = []
    left = total
    style = rng.below(5)
    while left > 0 and len(probs) <= max_symbol:
        r = rng.below(10)
        if r < 2 and len(probs) < max_symbol:
            probs += [0] * rng.choice([1, 1, 2, 3, 4, 6, 7, 9])
            probs = probs[:max_symbol]
            continue
        if r < 4:
            probs.append(-1); left -= 1
            continue
        if style == 0:
            p = left if rng.below(6) == 0 else rng.range(1, max(1, left // 2))
        elif style == 1:
            p = rng.range(1, min(left, 3))
        elif style == 2:
            p = min(left, 1 << rng.below(al))
        else:
            p = rng.range(1, left)
        probs.append(p); left -= p
    if left > 0:
        # alphabet exhausted: put the remainder on the first positive entry
        for i, p in enumerate(probs):
            if p > 0:
                probs[i] += left; left = 0
                break
        if left > 0:
            return None
    while probs and probs[-1] == 0:
        probs.pop()
    return probs if probs and len(probs) <= max_symbol + 1 else None



def production_tables(chk, rng, thorough):
    """the table descriptions the compressor writes into real blocks (its production parameters): each must parse
    under the format's limits (LL/ML accuracy log <= 9, OF <= 8; alphabets 36 / 53 / 32)"""
    import encgen, framegen
    lines = []
    for i in range(30 if thorough else 10):
        h0 = rng.bytes(70000)
        cur = bytearray()
        seqs = []
        lo = rng.choice([4, 4, 5])
        cnt = rng.choice([24, 28, 31, 31, 60])
        codes = [lo] + [c for c in range(lo + 1, 16) for _ in range(cnt)]
        for j in range(len(codes) - 1, 0, -1):
            k = rng.below(j + 1)
            codes[j], codes[k] = codes[k], codes[j]
        for c in codes:
            ll = rng.choice([0, 1, 2, 3, 17, 40]) if i % 2 else rng.choice([1, 2, 3])
            cur += rng.bytes(ll)
            off = max(1, (1 << c) + rng.below(1 << c) - 3)
            ml = rng.choice([3, 8, 16, 35, 70]) if i % 2 else 8
            cur += encgen.fast_copy(h0 + bytes(cur), off, ml)
            seqs.append((ll, off, ml))
        lines.append('rencm 1 131072 %s+%s' % (encgen.block_spec(h0, []), encgen.block_spec(bytes(cur), seqs)))
    # general valid parses as well (varied literal / match length codes, several blocks)
    from checks.C16 import gen_frame_spec
    for i in range(120 if thorough else 40):
        spec, _d = gen_frame_spec(rng, 131072, False)
        lines.append('rencm 1 131072 %s' % spec)
    res = zh_par('codec', lines)
    seen = {'ll': 0, 'of': 0, 'ml': 0}
    sections = []
    maxlog = {'ll': 0, 'of': 0, 'ml': 0}
    for ln, r in zip(lines, res):
        w = (r or 'missing').split()
        if w[0] != 'ok':
            chk.violation('the compressor %s on a block with a flat offset-code histogram' % ('panicked' if w[0] == 'panic' else 'failed'),
                          {'component': 'production-tables', 'command': ln[:300000], 'how': 'echo "<command>" | _build/cargo/release/zh codec'})
            continue
        f = unhex(w[1])
        wb = framegen.walk_blocks(f)
        for (p, last, ty, size, body) in (wb[1] if wb else []):
            if ty != 2:
                continue
            b = f[p + 3:p + 3 + body]
            # literals section: only raw / RLE literals are walked here
            lt, sf = b[0] & 3, (b[0] >> 2) & 3
            if lt > 1:
                continue
            hl = 1 if sf in (0, 2) else 2 if sf == 1 else 3
            n = (b[0] >> 3) if hl == 1 else (int.from_bytes(b[:hl], 'little') >> 4)
            q = hl + (n if lt == 0 else 1)
            ns = b[q]
            q += 1
            if ns == 0:
                continue
            if ns >= 128:
                q += 1 if ns < 255 else 2
            modes = b[q]
            q += 1
            if modes == 0xA8 and len(b) - q < 20000:
                # all three tables FSE-coded (what this compressor always writes): remember the section for the
                # re-encoding tie below
                nsq = ns if ns < 128 else ((ns - 128) << 8) + b[q - 2] if ns < 255 else b[q - 3] + (b[q - 2] << 8) + 0x7F00
                sections.append((ln, nsq, modes, b[q:]))
            for kind, shift, mlog, msym in (('ll', 6, 9, 35), ('of', 4, 8, 31), ('ml', 2, 9, 52)):
                m = (modes >> shift) & 3
                if m == 1:
                    q += 1
                elif m == 2:
                    d = entropy_spec.fse_read_description(b[q:], mlog, msym)
                    if d is None:
                        al = 5 + (b[q] & 15)
                        chk.violation('the compressor wrote a %s table description the format does not allow (accuracy log field %d, limit %d, or malformed)' % (
                            {'ll': 'literal-length', 'of': 'offset', 'ml': 'match-length'}[kind], al, mlog),
                            {'component': 'production-tables', 'command': ln[:300000], 'how': 'echo "<command>" | _build/cargo/release/zh codec ; parse the sequences section of the compressed block'})
                        return
                    seen[kind] += 1
                    maxlog[kind] = max(maxlog[kind], d[0])
                    q += d[2]
    # the compressor's sequences bit stream = the model's: decode the section with the decoder model, derive the encoder
    # tables from the decoding tables, write the fields in the modelled order, compare byte for byte
    mres = model_run('seqenc', ['%d %d %s' % (n, m, hexs(src)) for (ln, n, m, src) in sections])
    same = 0
    for (ln, n, m, src), r in zip(sections, mres):
        w = (r or 'missing').split()
        if w[0] != 'ok' or int(w[1]) != n:
            chk.tie_broken('correspondence:sequence-stream', 'the model cannot decode a sequences section the compressor wrote: %s (%d sequences); %s' % (r, n, ln[:150]))
            break
        if w[2] != w[3]:
            chk.tie_broken('correspondence:sequence-stream', 'the modelled sequences bit stream differs from the one the compressor wrote (%d sequences): model %s.. real %s..; %s' % (
                n, w[3][:60], w[2][:60], ln[:150]))
            break
        same += 1
    # the whole section = the model's section writer applied to the decoded distributions and sequences, and the side
    # conditions of C12_sequence_section_roundtrip hold on it (so the theorem speaks about this very section)
    sres = model_run('seqsection', ['%d %s' % (n, hexs(src)) for (ln, n, m, src) in sections])
    whole = 0
    for (ln, n, m, src), r in zip(sections, sres):
        w = (r or 'missing').split()
        if len(w) < 3 or w[0] != 'ok':
            chk.tie_broken('correspondence:sequence-section', 'the model cannot decode and rewrite a sequences section the compressor wrote: %s (%d sequences); %s' % (r[:60], n, ln[:150]))
            break
        if w[2] != hexs(src):
            chk.tie_broken('correspondence:sequence-section', 'the modelled sequences section (descriptions + stream) differs from the one the compressor wrote (%d sequences): model %s.. real %s..; %s' % (
                n, w[2][:60], hexs(src)[:60], ln[:150]))
            break
        if w[1] != '1':
            chk.tie_broken('model:sequence-section', 'a section the compressor wrote does not meet the side conditions of the section round-trip theorem (%d sequences); %s' % (n, ln[:150]))
            break
        whole += 1
    chk.add_samples('production-tables', len(lines), len(set(lines)), [{'command': lines[0][:120]}],
                    rule='blocks whose offset codes have a flat histogram over codes 5..15 plus one rare code (normalised sum above 256), with fixed and varied literal / match length codes, compressed through a scripted matcher; every table description in the emitted blocks is parsed with an independent RFC reader under the format limits')
    chk.cov['components']['production-tables'].update({'descriptions_parsed': seen, 'largest_accuracy_log': maxlog,
                                                        'sequence_sections': len(sections), 'sequence_streams_reencoded_identically': same,
                                                        'sections_rewritten_identically_with_side_conditions': whole})


def run(chk):
    rng = SplitMix64(chk.seed).fork('C12')
    thorough = chk.tier == 'thorough'
    ok, msg = regen()
    if not ok:
        chk.tie_broken('translator', msg)
    else:
        chk.prove('props/C12.v')
    if not prepare(chk):
        return
    # ---- (a) decoding tables from serialized descriptions
    cases = []
    for _ in range(2500 if thorough else 600):
        max_symbol, max_log = rng.choice([(35, 9), (52, 9), (31, 8), (255, 6)])
        al = rng.range(5, max_log)
        probs = random_distribution(rng, al, max_symbol)
        if probs is None:
            continue
        # inside a frame a table description is always followed by at least one more byte (the bitstream it belongs
        # to); the implementation reads a full-width field before giving a bit back, so it needs that byte
        cases.append((max_symbol, max_log, al, probs, entropy_spec.fse_write_description(probs, al) + rng.bytes(rng.range(1, 3))))
    # boundary shapes: one symbol takes everything but one / all less-than-one / long zero runs
    for al in range(5, 10):
        cases.append((255, 9, al, [(1 << al) - 1, -1], entropy_spec.fse_write_description([(1 << al) - 1, -1], al) + b'\x01'))
        cases.append((255, 9, al, [-1] * (1 << al) if al <= 7 else [2] * (1 << (al - 1)), entropy_spec.fse_write_description([-1] * (1 << al) if al <= 7 else [2] * (1 << (al - 1)), al) + b'\x01'))
        pz = [1] + [0] * 30 + [(1 << al) - 1]
        cases.append((255, 9, al, pz, entropy_spec.fse_write_description(pz, al) + b'\x01'))
    malformed = [(rng.choice([35, 52, 31, 255]), rng.choice([6, 8, 9]), None, None, rng.bytes(rng.range(0, 12))) for _ in range(600 if thorough else 200)]
    allc = cases + malformed
    lines = ['fse %d %d %s' % (ms, ml, hexs(d)) for ms, ml, al, probs, d in allc]
    impl = zh_par('entropy', lines)
    mod = model_run('fse', ['%d %d %s' % (ms, ml, hexs(d)) for ms, ml, al, probs, d in allc])
    ndis = 0
    for (ms, ml, al, probs, d), a, b, ln in zip(allc, impl, mod, lines):
        if a != b:
            ndis += 1
            if ndis == 1:
                chk.tie_broken('correspondence:fse-table', 'decoding tables of model and implementation differ on %s: impl %s model %s' % (ln[:80], a[:80], b[:80]))
        spec = entropy_spec.fse_read_description(d, ml, ms)
        if spec is None:
            exp = 'err'
        else:
            sal, sprobs, used = spec
            t = synth.build_dtable(sprobs, sal)
            exp = 'ok %d %d %s' % (used, sal, ' '.join('%d,%d,%d' % e for e in t))
            if probs is not None and (sprobs != probs or sal != al):
                chk.tie_broken('oracle:fse-writer', 'the Python description writer and reader disagree on %s' % probs)
        if spec is not None and spec[2] == len(d) and a == 'err':
            # the description ends exactly at the end of the input: the implementation reads a full-width field before
            # giving a bit back and therefore needs one more byte, which every table description inside a frame or a
            # dictionary has (the bitstream / the next field follows).  Recorded as an observation, not a verdict.
            chk.cov.setdefault('observations', {}).setdefault('description-without-following-byte-refused', 0)
            chk.cov['observations']['description-without-following-byte-refused'] += 1
            continue
        if a != exp and len(chk.violations) < 3:
            chk.violation('decoding table for description %s: implementation %s, specification %s' % (hexs(d)[:40], a[:70], exp[:70]),
                          {'component': 'fse-table', 'input': ln, 'probabilities': probs, 'how': 'echo "%s" | _build/cargo/release/zh entropy' % ln})
    chk.cov['disagreements_checked'] += ndis
    chk.add_samples('fse-table', len(lines), len(set(lines)), [{'input': lines[i][:80], 'probabilities': allc[i][3]} for i in (0, len(cases) // 2, len(lines) - 1)],
                    rule='random normalized distributions (positive, less-than-one, zero runs of 1..9) for accuracy logs 5..max and all four alphabets, boundary shapes, and random byte strings as malformed descriptions; distinct = distinct inputs')
    # ---- (b) the compressor's table description parses back; its states agree with the decoder's table
    wl = ['fsewrite %d %s' % (al, ','.join(str(p) for p in probs)) for ms, ml, al, probs, d in cases]
    wr = zh_par('entropy', wl)
    nw = 0
    # the writer model of the theorem C12_table_description_roundtrip, on the same distributions
    wm = model_run('fsedesc', ['%d %s' % (al, ','.join(str(p) for p in probs)) for ms, ml, al, probs, d in cases])
    nwd = 0
    for (ms, ml, al, probs, d), r, m, ln in zip(cases, wr, wm, wl):
        mw = m.split()
        rw = r.split()
        if len(mw) < 3 or mw[0] != 'ok' or len(rw) < 2 or rw[0] != 'ok' or mw[1] != rw[1]:
            nwd += 1
            if nwd == 1:
                chk.tie_broken('correspondence:fse-writer', 'table description of model and implementation differ on %s: impl %s model %s' % (ln[:80], r[:80], m[:80]))
        elif mw[2] != '1' or mw[3:] != [str(al), ','.join(str(p) for p in probs), str(len(rw[1]) // 2)]:
            # the theorem's hypothesis or conclusion does not hold on an executed instance: model or proof is off
            chk.tie_broken('model:fse-writer', 'the description model does not read back on %s: %s' % (ln[:80], m[:120]))
    chk.cov['disagreements_checked'] += nwd
    for (ms, ml, al, probs, d), r, ln in zip(cases, wr, wl):
        w = r.split()
        if not w or w[0] != 'ok':
            if len(chk.violations) < 3:
                chk.violation('the table writer failed on a valid distribution: %s' % r[:60], {'component': 'fse-writer', 'input': ln, 'how': 'echo "%s" | _build/cargo/release/zh entropy' % ln})
            continue
        got = entropy_spec.fse_read_description(bytes.fromhex(w[1]) if w[1] != '-' else b'', 9, 255)
        nw += 1
        if (got is None or got[0] != al or got[1] != probs) and len(chk.violations) < 3:
            chk.violation('a table description written by the compressor does not parse back to the distribution it describes',
                          {'component': 'fse-writer', 'input': ln, 'written_hex': w[1], 'parsed': got, 'how': 'echo "%s" | _build/cargo/release/zh entropy' % ln})
    # ---- (c) normalisation of histograms with the production parameters
    hl, hists = [], []
    for _ in range(1500 if thorough else 400):
        max_log, nsym_max = rng.choice([(9, 36), (9, 53), (8, 32), (6, 13)])
        n = rng.range(1, nsym_max)
        style = rng.below(8)
        if style == 0:
            counts = [rng.below(5) for _ in range(n)]
        elif style == 1:
            counts = [rng.choice([0, 1, 1, 2, 1000, 100000]) for _ in range(n)]
        elif style == 2:
            counts = [1] * n
        elif style == 3:
            counts = [0] * n
            counts[rng.below(n)] = rng.range(1, 50000)
            if n > 1 and rng.below(2):
                counts[rng.below(n)] += rng.range(1, 3)
        elif style == 4:
            counts = [rng.range(0, 1 << rng.below(17)) for _ in range(n)]
        elif style == 5:
            counts = [max(0, 300 - 17 * i + rng.below(5)) for i in range(n)]
        else:
            # a histogram that needs no scaling (smallest count 1, largest <= number of symbols) whose total exceeds the
            # largest table by a little: the surplus is then taken off the small probabilities one by one
            n = nsym_max
            k = max(2, n // 3)
            d = rng.range(1, k)
            rest = n - 1 - k
            total_rest = (1 << max_log) + d - 1 - 2 * k
            base = total_rest // rest
            counts = [1] + [2] * k + [base] * rest
            for _ in range(total_rest - base * rest):
                counts[1 + k + rng.below(rest)] += 1
            if max(counts) > n:
                counts = [1] + [2] * k + [base] * rest
            for i in range(len(counts) - 1, 0, -1):
                j = rng.below(i + 1)
                counts[i], counts[j] = counts[j], counts[i]
        if sum(counts) == 0:
            counts[rng.below(n)] = 1
        while counts and counts[-1] == 0:
            counts.pop()
        hists.append((max_log, counts))
        hl.append('fsenorm %d 1 %s' % (max_log, ','.join(str(c) for c in counts)))
    hr = zh_par('entropy', hl)
    nk = 0
    # the normaliser model of C12_normaliser_output_is_normalised: same accuracy log and probabilities as the real one
    nmod = model_run('fsenorm', [x[len('fsenorm '):] for x in hl])
    nnd = 0
    for ln, a, b in zip(hl, hr, nmod):
        aw = a.split()
        if (aw[:3] if aw and aw[0] == 'ok' else ['panic' if a.startswith('panic') else a.split()[0] if a else 'missing']) != b.split():
            nnd += 1
            if nnd == 1:
                chk.tie_broken('correspondence:fse-normalise', 'normaliser model and implementation differ on %s: impl %s model %s' % (ln[:100], a[:80], b[:80]))
    chk.cov['disagreements_checked'] += nnd
    # every distribution the real normaliser produced must meet the hypothesis of the description theorem
    # ([dist_okb], evaluated in the model), be written identically by model and implementation, and read back
    nl, nidx = [], []
    for i, r in enumerate(hr):
        w = r.split()
        if w and w[0] == 'ok':
            nl.append('%s %s' % (w[1], w[2])); nidx.append(i)
    nm = model_run('fsedesc', nl)
    nwr = zh_par('entropy', ['fsewrite ' + x for x in nl])
    nbad = 0
    for i, ln, m, r in zip(nidx, nl, nm, nwr):
        mw, rw = m.split(), r.split()
        if len(mw) >= 3 and mw[0] == 'ok' and mw[2] != '1':
            if len(chk.violations) < 3:
                chk.violation('the normaliser produced a distribution that is not normalised (model predicate dist_okb false): %s' % ln[:100],
                              {'component': 'fse-normalise', 'input': hl[i], 'distribution': ln, 'how': 'echo "%s" | _build/cargo/release/zh entropy' % hl[i]})
            continue
        if len(mw) < 4 or mw[0] != 'ok' or len(rw) < 2 or rw[0] != 'ok' or mw[1] != rw[1]:
            nbad += 1
            if nbad == 1:
                chk.tie_broken('correspondence:fse-writer', 'table description of model and implementation differ on the normalised distribution %s: impl %s model %s' % (ln[:80], r[:80], m[:80]))
        elif mw[3:5] != ln.split():
            if len(chk.violations) < 3:
                chk.violation('a normalised distribution written by the compressor does not read back: %s -> %s' % (ln[:80], ' '.join(mw[3:])[:80]),
                              {'component': 'fse-writer', 'input': 'fsewrite ' + ln, 'how': 'echo "fsewrite %s" | _build/cargo/release/zh entropy' % ln})
    chk.cov['disagreements_checked'] += nbad
    chk.cov['components']['fse-normalised-descriptions'] = {'evaluations': len(nl)}
    chk.cov['evaluations'] += len(nl)
    for (max_log, counts), r, ln in zip(hists, hr, hl):
        only_zero = len(counts) == 1
        w = r.split()
        if not w or w[0] != 'ok':
            rep = {'component': 'fse-normalise', 'input': ln, 'only_symbol_zero': only_zero, 'how': 'echo "%s" | _build/cargo/release/zh entropy' % ln}
            chk.violation('normalisation of histogram %s (max log %d) ended in %s' % (counts[:20], max_log, r[:40]), rep)
            continue
        al = int(w[1])
        probs = [int(x) for x in w[2].split(',')]
        why = None
        if not (5 <= al <= max_log): why = 'accuracy log %d outside 5..%d' % (al, max_log)
        elif sum(abs(p) for p in probs) != (1 << al): why = 'probabilities sum to %d, not 2^%d' % (sum(abs(p) for p in probs), al)
        elif any(c > 0 and (i >= len(probs) or probs[i] == 0) for i, c in enumerate(counts)): why = 'a symbol that occurs got probability 0'
        elif max(probs) > (1 << (al - 1)): why = 'a probability above 2^(al-1) (a zero-bit state) with avoidance on'
        else:
            t = synth.build_dtable(probs, al)
            states = [tuple(int(x) for x in s.split(',')) for s in w[3:]]
            if sorted(st[1] for st in states) != list(range(1 << al)):
                why = 'the encoder states do not cover every table index exactly once'
            else:
                for sym, idx, bl, nb in states:
                    if t[idx] != (sym, nb, bl):
                        why = 'encoder state %s disagrees with the decoding table entry %s' % ((sym, idx, bl, nb), t[idx])
                        break
        nk += 1
        if why and len(chk.violations) < 3:
            chk.violation('normalisation of histogram %s: %s' % (counts[:20], why), {'component': 'fse-normalise', 'input': ln, 'how': 'echo "%s" | _build/cargo/release/zh entropy' % ln})
    chk.cov['components']['fse-writer'] = {'evaluations': nw}
    chk.cov['components']['fse-normalise'] = {'evaluations': nk}
    chk.cov['evaluations'] += nw + nk
    # ---- (d) the crate's own single-stream round-trip helper
    rl = []
    for _ in range(200 if thorough else 60):
        data, cls = framegen.gen_content(rng, 'small')
        if len(data) >= 64 and len(set(data)) > 1:
            rl.append('fsert ' + data.hex())
    rr = zh_par('entropy', rl)
    for ln, r in zip(rl, rr):
        if r != 'ok' and len(chk.violations) < 3:
            chk.violation('FSE round trip failed: %s' % r, {'component': 'fsert', 'input': ln[:200000], 'how': 'echo "<input>" | _build/cargo/release/zh entropy'})
    chk.cov['components']['fsert'] = {'evaluations': len(rl)}
    chk.cov['evaluations'] += len(rl)
    production_tables(chk, rng, thorough)
