"""C11 -- frames declaring a window above the configured limit are rejected up front.

proof      : coq/props/C11.v over generated window arithmetic / limit check / clamp and the reset model
tie check  : every window descriptor and single-segment content sizes x boundary limits x {fresh, reused after a
             completed frame, reused after a failed frame} x {FrameDecoder, decode_all, StreamingDecoder}
oracle     : RFC window formula and 'accepted iff window <= min(limit, format maximum)', computed independently
"""
from vlib import *
from checks.deccommon import *
import framegen

MAXW = (1 << 41) + 7 * (1 << 38)


def window_of(wd):
    e, m = wd >> 3, wd & 7
    return (1 << (10 + e)) + ((1 << (10 + e)) // 8) * m


def tiny_frame(wd=None, fcs=None):
    """a frame with an empty last raw block and the given window descriptor / single-segment content size"""
    if wd is not None:
        return b'\x28\xb5\x2f\xfd' + bytes([0, wd]) + framegen.block_header(1, 0, 0)
    n = 1 if fcs < 256 else 2 if fcs < 65536 + 256 else 4 if fcs < 2 ** 32 else 8
    d = 0x20 | ({1: 0, 2: 1, 4: 2, 8: 3}[n] << 6)
    return b'\x28\xb5\x2f\xfd' + bytes([d]) + (fcs - 256 if n == 2 else fcs).to_bytes(n, 'little') + framegen.block_header(1, 0, 0)


def run(chk):
    rng = SplitMix64(chk.seed).fork('C11')
    thorough = chk.tier == 'thorough'
    ok, msg = regen()
    if not ok:
        # the model cannot be regenerated: the proof obligation is open; the search for a failing input still runs on the
        # implementation alone, against the independent window formula
        chk.tie_broken('translator', msg)
        okh, hlog = build_harness(('release',))
        if not okh:
            chk.tie_broken('harness-build', hlog[-600:])
            return
    else:
        chk.prove('props/C11.v')
        if not prepare(chk):
            return
    good = framegen.make_libzstd_frames(rng, 2, 'tiny')[0]['frame']
    cases, lines = [], []
    wds = list(range(256)) if thorough else sorted(set([0, 1, 7, 8, 0x88, 0x89, 0xF8, 0xFE, 0xFF] + [rng.below(256) for _ in range(40)]))
    items = [('wd', wd, window_of(wd)) for wd in wds]
    for fcs in [0, 1, 255, 256, 1023, 1024, 65791, 65792, (128 << 20), (128 << 20) + 1, 2 ** 32 - 1, 2 ** 32, MAXW, MAXW + 1, 2 ** 63, 2 ** 64 - 1] + [rng.below(2 ** 40) for _ in range(10)]:
        items.append(('fcs', fcs, fcs))
    # a window descriptor together with a content-size field (2, 4 or 8 bytes): the window is still the descriptor's
    for wd in (wds if thorough else wds[::4] + [0x88, 0x90, 0xF8]):
        for fl, n in ((1, 2), (2, 4), (3, 8)):
            fcs = rng.choice([0, 1, 1000, 70000, 2 ** 31])
            fcs = min(fcs, 2 ** (8 * n) - 1)
            items.append(('wd+fcs%d' % n, (wd, fl, n, fcs), window_of(wd)))
    for kind, v, w in items:
        if kind.startswith('wd+fcs'):
            wd, fl, n, fcs = v
            f = b'\x28\xb5\x2f\xfd' + bytes([fl << 6, wd]) + fcs.to_bytes(n, 'little') + framegen.block_header(1, 0, 0)
            v = wd * 1000 + n
        else:
            f = tiny_frame(wd=v) if kind == 'wd' else tiny_frame(fcs=v)
        limits = sorted(set(min(x, 2 ** 64 - 1) for x in [0, max(w - 1, 0), w, w + 1, 128 << 20, MAXW - 1, MAXW, MAXW + 1, 2 ** 64 - 1]))
        if not thorough:
            limits = [l for l in limits if l in (max(w - 1, 0), w, min(w + 1, 2 ** 64 - 1))] + [rng.choice([128 << 20, MAXW, 2 ** 64 - 1, None])]
        for lim in limits:
            for path in ('fresh', 'reused', 'after-error', 'decode_all', 'streaming'):
                if kind.startswith('wd+fcs') and path == 'decode_all':
                    continue        # (the declared content size of these header-only frames is not their content)
                pre = 'maxwin=%d ' % lim if lim is not None else ''
                if path == 'fresh':
                    prog = pre + 'src=%s I' % hexs(f)
                elif path == 'reused':
                    prog = 'src=%s I Ba C %ssrc=%s I' % (hexs(good), pre, hexs(f))
                elif path == 'after-error':
                    prog = 'src=00000000 I %ssrc=%s I' % (pre, hexs(f))
                elif path == 'decode_all':
                    prog = pre + 'src=%s A10' % hexs(f)
                else:
                    prog = pre + 'src=%s SI' % hexs(f)
                eff = min(lim, MAXW) if lim is not None else (128 << 20)
                expect_ok = w <= eff
                if expect_ok and path == 'reused' and w > (1 << 28):
                    # a reused decoder reserves the accepted window at once: real allocations of many gigabytes are
                    # outside the property (allocation failure is not modelled); the fresh path covers the verdict
                    continue
                cases.append((kind, v, w, lim, path, expect_ok))
                lines.append(prog)
    impl, mod, dis = run_programs(chk, 'window-limit', lines,
                                  describe=lambda i: '%s=%d window %d limit %s path %s' % cases[i][:5], model=ok)
    nbad = 0
    for (kind, v, w, lim, path, expect_ok), t, ln in zip(cases, impl, lines):
        last = t[-1] if t else ''
        got_ok = last in ('I:ok',) or last.startswith('A:') and last not in ('A:err', 'A:panic', 'A:err-vector-changed')
        if got_ok != expect_ok and nbad < 3:
            nbad += 1
            chk.violation('window %d with limit %s via %s: %s, expected %s' % (w, lim, path, last, 'accepted' if expect_ok else 'refused'),
                          {'component': 'window-limit', 'program': ln, 'how': 'echo "<program>" | _build/cargo/release/zh prog'})
    chk.add_samples('window-limit', len(lines), len(set(lines)),
                    [{'field': cases[i][0], 'value': cases[i][1], 'window': cases[i][2], 'limit': cases[i][3], 'path': cases[i][4], 'expected_ok': cases[i][5]} for i in (0, len(cases) // 2, len(cases) - 1)],
                    rule='window descriptors / single-segment sizes x limits at w-1, w, w+1, default, format maximum +-1, u64::MAX x five entry paths; distinct = distinct programs')
