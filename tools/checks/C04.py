"""C04 -- the unsafe output window behaves as a byte queue and never leaves its allocation.

proof      : coq/props/C04.v over the hand model coq/model/RingBuffer.v (all K >= 1, all states, all operands)
tie check  : op sequences on the real RingBuffer (hook) vs the model evaluated inside Coq: after every operation
             (cap, head, tail, len, free, contents) and the exact arguments of every copy_bytes_overshooting call
oracle     : VecDeque<u8> inside the harness (the implementation against the byte-queue spec directly)
"""
import os, sys, re
from vlib import *

K = 16


def npot(x):
    return 1 if x <= 1 else 1 << (x - 1).bit_length()


class Mini:
    """tiny mirror of the index arithmetic, only used to *generate* interesting operands (never as an oracle)"""
    def __init__(self):
        self.cap = self.head = self.tail = 0

    def len(self):
        return self.tail - self.head if self.tail >= self.head else self.cap - self.head + self.tail

    def free(self):
        x = (self.head - self.tail) if self.tail < self.head else (self.cap - self.tail + self.head)
        return max(x - 1, 0)

    def reserve(self, n):
        f = self.free()
        if f >= n:
            return
        l = self.len()
        new_cap = max(npot(self.cap), npot(self.cap + n - f)) + 1
        if self.cap > 0:
            self.head, self.tail = 0, l
        self.cap = new_cap

    def grow(self, n):
        if n == 0:
            return
        self.reserve(n)
        self.tail = (self.tail + n) % self.cap

    def drop(self, n):
        n = min(n, self.len())
        if self.cap:
            self.head = (self.head + n) % self.cap


SIZES = [0, 1, 2, 3, 5, 7, 8, 9, 15, 16, 17, 24, 31, 32, 33, 40, 47, 48, 49, 63, 64, 65, 100]


def gen_seq(rng, maxops):
    m = Mini()
    ops = []      # (token, intlist)
    nops = rng.range(3, maxops)
    byte = [1]
    def data(n):
        out = []
        for _ in range(n):
            out.append(byte[0] % 251)
            byte[0] += 1
        return out
    for _ in range(nops):
        L, F = m.len(), m.free()
        r = rng.below(100)
        def size():
            c = rng.below(10)
            if c == 0: return F
            if c == 1: return max(F - 1, 0)
            if c == 2: return F + 1
            if c == 3 and L: return L
            return rng.choice(SIZES)
        if r < 22:
            n = size() if rng.chance(3, 4) else rng.range(0, 40)
            n = min(n, 300)
            d = data(n)
            ops.append(('e' + (bytes(d).hex() if d else '-'), [0] + d))
            m.grow(n)
        elif r < 30:
            n = min(size(), 300)
            b = rng.below(256)
            ops.append(('f%d,%d' % (b, n), [1, b, n]))
            m.grow(n)
        elif r < 48:
            if m.cap == 0 and not rng.chance(1, 20):
                continue
            n = rng.choice([0, 1, L, L // 2, max(L - 1, 0), rng.range(0, L) if L else 0])
            ops.append(('d%d' % n, [2, n]))
            if m.cap: m.drop(n)
            else: break                      # remainder by zero: panics in both
        elif r < 54:
            n = min(size(), 400)
            ops.append(('r%d' % n, [3, n]))
            m.reserve(n)
        elif r < 57:
            ops.append(('c', [4]))
            m.head = m.tail = 0
        elif r < 80:
            # safe wrapper (reserves itself); sometimes deliberately out of range (panics in both)
            if L == 0 and not rng.chance(1, 10):
                continue
            st = rng.range(0, L) if L else 0
            n = rng.choice([0, min(1, L - st), L - st, max(L - st - 1, 0), min(L - st, 16), min(L - st, 17), min(L - st, 32), rng.range(0, L - st) if L - st else 0])
            if rng.chance(1, 25):
                n = L - st + 1 + rng.below(3)
            ops.append(('w%d,%d' % (st, n), [5, st, n]))
            if st + n > L: break
            if m.cap == 0 and n == 0 and L == 0:
                m.reserve(0)
                break                        # (tail + 0) % 0 panics in both
            m.grow(n)
        elif r < 94:
            # unchecked copy with the precondition established: start + n <= len, free >= n, cap > 0
            if L == 0 or m.cap == 0:
                continue
            st = rng.range(0, L)
            room = min(L - st, F)
            n = rng.choice([0, min(1, room), room, max(room - 1, 0), min(room, 15), min(room, 16), min(room, 17), min(room, 32), rng.range(0, room) if room else 0])
            ops.append(('u%d,%d' % (st, n), [6, st, n]))
            m.grow(n)
        else:
            n = min(size(), 200)
            avail = rng.choice([n, n + 3, max(n - 1, 0), n // 2, 0])
            ops.append(('R%d,%d' % (n, avail), [7, n, avail]))
            if avail >= n:
                m.grow(n)
            else:
                m.reserve(n) if n else None
    return ops


def parse_trace(line):
    """harness output line -> list of per-op integer lists in the model's format, plus oracle flags"""
    recs, flags = [], []
    for tok in line.split():
        if tok == 'panic':
            recs.append([-1])
            break
        st, cp, same = tok.split('|')
        cap, head, tail, ln, fr, hx = st.split(',')
        rec = [int(cap), int(head), int(tail), int(ln), int(fr)] + (list(bytes.fromhex(hx)) if hx != '-' else [])
        rec.append(-7)
        if cp != '-':
            for grp in re.findall(r"\[([^\]]*)\]", cp):
                v = [int(x) for x in grp.split(',')]
                rec += v[:5]
                if v[5] != K:
                    rec.append(-99)          # unexpected chunk size: reported as a mismatch
        recs.append(rec)
        flags.append(same == '1')
    return recs, flags


def coq_ll(xss):
    return '[' + '; '.join(coq_list(x) for x in xss) + ']'


def run(chk):
    rng = SplitMix64(chk.seed).fork('C04')
    thorough = chk.tier == 'thorough'
    chk.prove('props/C04.v', ['model/RingTrace.vo'])
    okh, hlog = build_harness(('debug', 'release'))
    if not okh:
        chk.tie_broken('harness-build', hlog[-600:])
        return
    ncases = 6000 if thorough else 1200
    seqs = [gen_seq(rng, 22) for _ in range(ncases)]
    # corpus of minimised earlier disagreements runs first
    lines = [' '.join(t for t, _ in s) if s else 'c' for s in seqs]
    seqs = [s if s else [('c', [4])] for s in seqs]
    results = {}
    for prof in ('debug', 'release'):
        rc, res, err = zh('ring', lines, prof)
        if len(res) != len(lines):
            chk.tie_broken('harness:ring', '%s harness returned %d lines for %d cases' % (prof, len(res), len(lines)))
            return
        results[prof] = res
    nops = 0
    hist = {}
    cases = []
    for i, (s, ld, lr) in enumerate(zip(seqs, results['debug'], results['release'])):
        td, fd = parse_trace(ld)
        tr, fr = parse_trace(lr)
        # debug builds panic on debug_assert!(amount <= len) in drop_first_n etc.; otherwise both must agree
        if td != tr and not (td and td[-1] == [-1] and len(td) <= len(tr)):
            chk.violation('debug and release builds disagree on an operation sequence',
                          {'component': 'ring', 'input': lines[i], 'debug': ld[:400], 'release': lr[:400],
                           'how': 'echo "%s" | _build/cargo/release/zh ring' % lines[i]})
        for j, ok in enumerate(fr):
            if not ok:
                chk.violation('ring buffer contents differ from a VecDeque subjected to the same operations (op %d)' % j,
                              {'component': 'ring', 'input': lines[i], 'op_index': j, 'got': lr[:600],
                               'how': 'echo "%s" | _build/cargo/release/zh ring' % lines[i]})
                break
        nops += len(tr)
        for t, _ in s[:len(tr)]:
            hist[t[0]] = hist.get(t[0], 0) + 1
        cases.append(([o for _, o in s], tr))
    chk.cov['components']['ring:vecdeque-oracle'] = {'sequences': len(seqs), 'operations': nops, 'op_histogram': hist}
    # model vs implementation inside Coq
    shard = 150
    jobs = []
    for s0 in range(0, len(cases), shard):
        rows = ['(%s, %s)' % (coq_ll(ops), coq_ll(exp)) for ops, exp in cases[s0:s0 + shard]]
        body = ('Require Import Zrs.model.RingBuffer Zrs.model.RingTrace.\nFrom Coq Require Import ZArith List.\nImport ListNotations.\nOpen Scope Z_scope.\n'
                'Definition cases : list (list (list Z) * list (list Z)) := [\n' + ';\n'.join(rows) + '].\n'
                'Eval vm_compute in (map fst (ring_mismatches 0 %d%%nat cases)).\n' % K)
        jobs.append((s0, body))
    import concurrent.futures
    dis = []
    def work(job):
        return job[0], coq_eval('C04_ring_%d' % job[0], job[1], timeout=1200)
    with concurrent.futures.ThreadPoolExecutor(max_workers=12) as ex:
        for s0, (rc, out, err, dt) in ex.map(work, jobs):
            flat = ' '.join(out.split())
            m = re.search(r"= (\[[^\]]*\]|nil) : list Z", flat)
            if rc != 0 or not m:
                chk.tie_broken('correspondence:ring', 'coqc failed or unparseable: ' + (err or flat)[-300:])
                continue
            idxs = [int(x) for x in re.findall(r"-?\d+", m.group(1))]
            for ix in idxs:
                dis.append(s0 + ix)
    chk.cov['disagreements_checked'] += len(dis)
    distinct = len(set(lines))
    chk.add_samples('ring', len(lines), distinct,
                    [{'ops': lines[i], 'impl_trace': results['release'][i][:300]} for i in (0, len(lines) // 2, len(lines) - 1)],
                    rule='PRNG op sequences (3-22 ops) over extend/fill/reader/drop/reserve/clear/extend_from_within(safe and unchecked), operands biased to free, free+-1, len, 15/16/17/31/32/33 and wrap; distinct = distinct sequences')
    if dis:
        i = dis[0]
        chk.tie_broken('correspondence:ring', 'model and implementation traces differ on %d sequences, first: %s -> impl %s' % (
            len(dis), lines[i], results['release'][i][:300]))
