"""C02 -- compress then decompress returns the input, and the frame is valid Zstandard.

proof      : coq/props/C02.v (frame-level compressor model: blocks independent of the reader's fragmentation; unconditional
             round trip through the decoder model at level Uncompressed for every input / block size / reuse; raw and RLE
             blocks decode for every decoder state)
tie check  : frames of the real compressor = frames of the model (level Uncompressed exactly; level Fastest with the
             compressed-block bodies replayed as the block-encoder oracle), for fragmenting readers and reused compressors
oracle     : libzstd's decoder and this crate's decoder restore the input
"""
from checks.enccommon import *


def run(chk):
    rng = SplitMix64(chk.seed).fork('C02')
    thorough = chk.tier == 'thorough'
    chk.prove('props/C02.v')
    if not prepare(chk):
        return
    nbad = [0]
    contents = path_contents(rng, thorough) + general_contents(rng, 120 if thorough else 50)
    # single frames, both levels, fragmenting readers
    cases, lines = [], []
    for kind, d in contents:
        for level in (0, 1):
            frag = rng.choice([0, 0, 1, 7, 1000, 65536, 131071])
            if len(d) > 200000 and frag in (1, 7):
                frag = 1000
            cases.append({'kind': kind, 'level': level, 'frag': frag, 'datas': [d]})
            lines.append('renc %d %s %d' % (level, hexs(d), frag))
    # reused compressors: 2-4 frames through one object
    for _ in range(60 if thorough else 25):
        level = rng.below(2)
        ds = [rng.choice(contents)[1] for _ in range(rng.range(2, 4))]
        ds = [d if len(d) < 150000 else d[:150000] for d in ds]
        # a third of the histories change source and drain only in place (source_mut / drain_mut) and call compress()
        # once more on the exhausted source, which must give a valid frame holding no data
        if rng.below(3) == 0:
            cases.append({'kind': 'reuse-in-place', 'level': level, 'frag': 0, 'datas': ds + [b'']})
            lines.append('renc_multi_mut %d %d %s' % (level, rng.choice([0, 0, 13, 4096]), ' '.join(hexs(d) for d in ds)))
        else:
            cases.append({'kind': 'reuse', 'level': level, 'frag': 0, 'datas': ds})
            lines.append('renc_multi %d %d %s' % (level, rng.choice([0, 0, 13, 4096]), ' '.join(hexs(d) for d in ds)))
    res = zh_par('codec', lines)
    items, mlines, mexp = [], [], []
    for c, ln, r in zip(cases, lines, res):
        w = (r or 'missing').split()
        if w[0] != 'ok' or len(w) - 1 != len(c['datas']):
            if nbad[0] < 5:
                nbad[0] += 1
                chk.violation('the compressor %s for %s input (level %d)' % ('panicked' if w[0] == 'panic' else 'failed: ' + w[0], c['kind'], c['level']),
                              {'component': 'roundtrip', 'command': ln[:300000], 'how': 'echo "<command>" | _build/cargo/release/zh codec'})
            continue
        for d, fh in zip(c['datas'], w[1:]):
            f = unhex(fh)
            items.append((f, d, '%s, level %d' % (c['kind'], c['level']), ln))
            if framegen.walk_blocks(f):
                script = [rng.below(5000) for _ in range(rng.below(6))]
                mlines.append(model_line(c['level'], f, d, SLICE, script))
                mexp.append(f)
    decode_checks(chk, 'roundtrip', [(f, d, l) for f, d, l, ln in items], nbad,
                  lambda i: {'command': items[i][3][:300000], 'how': 'echo "<command>" | _build/cargo/release/zh codec ; decode the printed frame'})
    mod = model_run('frame', mlines, timeout=1500)
    ndis = 0
    for ml, exp, got in zip(mlines, mexp, mod):
        if got != 'ok ' + hexs(exp):
            ndis += 1
            if ndis == 1:
                chk.tie_broken('correspondence:frame-model', 'the frame-level model (block bodies replayed) does not reproduce the real frame: level %s, %d input bytes; model: %s real: %s' % (
                    ml[0], len(unhex(ml.split()[5])), (got or '')[:80], hexs(exp)[:80]))
    chk.cov['disagreements_checked'] += ndis
    # every compressed block of every frame (raw or Huffman-coded literals, with description or treeless): taken apart by
    # the decoder model -- which carries the Huffman table from block to block as the decoder does -- and written again by
    # the encoder models of C02_fastest_roundtrip; the bytes must be the real block, and the per-block obligations O1
    # ([section_hyps_b]) and O2 (raw literals, or [huf_side_b]: the table resolves the code words) must evaluate to true
    fl, fmeta = [], []
    for f, d, l, ln in items:
        w = framegen.walk_blocks(f)
        bodies = [f[p + 3:p + 3 + body] for (p, last, ty, size, body) in (w[1] if w else []) if ty == 2]
        if bodies and sum(len(b) for b in bodies) < (400000 if thorough else 150000):
            fl.append(' '.join(hexs(b) for b in bodies))
            fmeta.append((l, len(bodies), [b[0] & 3 for b in bodies]))
    fl, fmeta = fl[:200 if thorough else 45], fmeta[:200 if thorough else 45]
    br = model_run('blocks', fl, timeout=2400)
    nrb = nhuf = 0
    for (l, nb, kinds), r in zip(fmeta, br):
        w = (r or 'missing').split()
        if len(w) != nb + 1 or w[0] != 'ok':
            chk.tie_broken('correspondence:compressed-block', 'the decoder model could not take the compressed blocks of a real frame apart (%s): %s' % (l, (r or '')[:80]))
            break
        if any(x[1] != '1' for x in w[1:]):
            k = [x[1] for x in w[1:]].index('0')
            chk.tie_broken('correspondence:compressed-block', 'the encoder models do not reproduce compressed block %d of a real frame (%s; literals type %d)' % (k, l, kinds[k]))
            break
        if any(x[0] != '1' for x in w[1:]):
            k = [x[0] for x in w[1:]].index('0')
            chk.tie_broken('model:compressed-block', 'compressed block %d of a real frame does not meet the per-block obligations O1 / O2 of the round-trip theorem (%s; literals type %d)' % (k, l, kinds[k]))
            break
        nrb += nb
        nhuf += sum(1 for t in kinds if t >= 2)
    # the literals part of every compressed block from the literals alone: the model of compress_block's literals part
    # with compress_literals, write_table, can_encode (model/LitComp.v) -- raw below 1025 literals or for a single
    # symbol, Huffman with a new table (direct or FSE-compressed description) or treeless with the remembered table
    # when the code lengths differ by at most 5, raw again when not smaller; the remembered table forgotten after a
    # block stored raw -- carried over the blocks of the frame must write the literals section of every real block
    # inputs made for the table decisions: blocks of 128 KiB drawn from a skewed byte distribution that stays, is
    # jittered, has two symbols swapped, gets a new symbol or is redrawn from block to block (3 to 80 symbols), so that the code-length
    # difference to the remembered table falls below and above the threshold and new symbols rule the old table out
    def drift_input(nblocks):
        k = rng.choice([3, 5, 8, 12, 17, 24, 40, 80, 80])
        pool = list(range(17 if (k <= 12 and rng.below(3) == 0) else 236))
        for i in range(len(pool) - 1, 0, -1):
            j = rng.below(i + 1)
            pool[i], pool[j] = pool[j], pool[i]
        syms, spare = pool[:k], (pool[k:k + 6] + pool[:6])[:6]
        def draw():
            e = rng.choice([1, 2, 4])
            return [((1 + rng.below(1000)) / 1000.0) ** e + 0.01 for _ in range(k)]
        wts = draw()
        out, modes = bytearray(), []
        for b in range(nblocks):
            mode = rng.choice(['same', 'same', 'jitter', 'swap', 'newsym', 'reshape', 'higher', 'higher']) if b else 'first'
            if mode == 'jitter':
                wts = [w * rng.choice([0.7, 1, 1, 1.4]) for w in wts]
            elif mode == 'swap':
                i, j = rng.below(k), rng.below(k)
                wts[i], wts[j] = wts[j], wts[i]
            elif mode == 'newsym':
                syms = list(syms)
                syms[rng.below(k)] = spare[rng.below(6)]
            elif mode == 'reshape':
                wts = draw()
            elif mode == 'higher':
                # one more, rare byte value above all earlier ones: the new table is longer than the remembered one while
                # the code lengths of the shared symbols hardly move
                if max(syms) < 255 and len(wts) == len(syms):
                    syms = list(syms) + [min(255, max(syms) + 1 + rng.below(3))]
                    wts = list(wts) + [min(wts) * 0.5 + 0.005]
                    k = len(syms)
            modes.append(mode)
            tot = sum(wts)
            cum, acc = [], 0.0
            for w in wts:
                acc += w / tot
                cum.append(acc)
            import bisect
            # a chunk of fresh bytes (they become literals) repeated to fill the block (the repetitions become matches):
            # the executable model is slow on many Huffman-coded literals
            chunk = bytes(syms[min(k - 1, bisect.bisect_left(cum, rng.below(1 << 24) / float(1 << 24)))] for _ in range(rng.range(12000, 26000)))
            out += (chunk * 11)[:131072]
        return bytes(out), modes
    drift = [drift_input(rng.range(2, 4)) for _ in range(30 if thorough else 12)]
    # ... and with stable ranks: geometric weights over ascending byte values, so that the table of the next block differs
    # from the remembered one in nothing but what the block changes -- one more rare byte value above all earlier ones
    # (the new table is longer than the remembered one), one value fewer at the top (shorter), or nothing at all
    def ladder_input(k, ratio, base, change):
        import bisect
        syms, wts = list(range(base, base + k)), [ratio ** i for i in range(k)]
        out = bytearray()
        for b in range(2):
            if b == 1 and change == 'higher':
                syms, wts = syms + [syms[-1] + 1 + rng.below(3)], wts + [wts[-1] * 0.5]
            elif b == 1 and change == 'lower':
                syms, wts = syms[:-1], wts[:-1]
            tot = sum(wts)
            cum, acc = [], 0.0
            for w in wts:
                acc += w / tot
                cum.append(acc)
            chunk = bytes(syms[min(len(syms) - 1, bisect.bisect_left(cum, rng.below(1 << 24) / float(1 << 24)))] for _ in range(rng.range(12000, 22000)))
            out += (chunk * 11)[:131072]
        return bytes(out), ['ladder %d' % k, change]
    for k in ((6, 10, 17, 30, 60) if thorough else (6, 17, 30)):
        for change in ('higher', 'lower', 'same'):
            drift.append(ladder_input(k, rng.choice([0.5, 0.7, 0.85]) if k < 30 else 0.85, rng.choice([0, 40, 150]), change))
    dres = zh_par('codec', ['renc 1 %s 0' % hexs(d) for d, m in drift])
    ditems = []
    for (d, m), r in zip(drift, dres):
        w = (r or 'missing').split()
        if w[0] != 'ok' or len(w) != 2:
            chk.violation('the compressor %s for an input with a drifting byte distribution' % ('panicked' if w[0] == 'panic' else 'failed: ' + w[0]),
                          {'component': 'roundtrip', 'command': ('renc 1 %s 0' % hexs(d))[:2000000], 'how': 'echo "<command>" | _build/cargo/release/zh codec'})
            continue
        ditems.append((unhex(w[1]), d, 'drifting distribution (%s), level 1' % '/'.join(m), 'renc 1 %s 0' % hexs(d)))
    decode_checks(chk, 'roundtrip-drift', [(f, d, l) for f, d, l, ln in ditems], nbad,
                  lambda i: {'command': ditems[i][3][:2000000], 'how': 'echo "<command>" | _build/cargo/release/zh codec ; decode the printed frame'})
    cl, cmeta, nskipped = [], [], [0]
    for f, d, l, ln in ditems + items:
        if 'level 1' not in l:
            continue
        w = framegen.walk_blocks(f)
        blocks = w[1] if w else []
        if not any(ty == 2 for (p, last, ty, size, body) in blocks):
            continue
        if sum(body for (p, last, ty, size, body) in blocks) > (400000 if thorough else 150000) and not l.startswith('drifting'):
            continue
        # the executable model is super-linear in the number of Huffman-coded literals of a block: leave out frames with
        # a block above the budget (counted in the evidence)
        def huf_regen(b):
            if len(b) < 3 or (b[0] & 3) < 2:
                return 0
            sf = (b[0] >> 2) & 3
            return (b[0] >> 4) + (((b[1] & 0x3f) << 4) if sf < 2 else ((b[1] << 4) + ((b[2] & 3) << 12)) if sf == 2 else ((b[1] << 4) + ((b[2] & 0x3f) << 12)))
        if max(huf_regen(f[p + 3:p + 3 + body]) for (p, last, ty, size, body) in blocks if ty == 2) > (60000 if thorough else 40000):
            nskipped[0] += 1
            continue
        cl.append(' '.join('R' if ty == 1 else 'W' if ty == 0 else hexs(f[p + 3:p + 3 + body]) for (p, last, ty, size, body) in blocks))
        cmeta.append((l, sum(1 for b in blocks if b[2] == 2), ln))
    cl, cmeta = cl[:160 if thorough else 70], cmeta[:160 if thorough else 70]
    cr = model_run('litchain', cl, timeout=2400, jobs=14, per_job=1)
    nlit = 0
    kinds_seen = {}
    def keep_input(ln, line):
        # the compressor command and the model's input line, so that the disagreement can be replayed
        os.makedirs(REPLAY, exist_ok=True)
        path = os.path.join(REPLAY, 'C02-literals-part-input.txt')
        with open(path, 'w') as fh:
            fh.write('# echo "<line 2>" | _build/cargo/release/zh codec   gives the frame; its blocks (R / W / body hex) are line 3:\n# echo "<line 3>" | _build/ocaml/driver litchain\n')
            fh.write(ln + '\n' + line + '\n')
        return path
    for (l, nb, ln), r, line in zip(cmeta, cr, cl):
        w = (r or 'missing').split()
        if len(w) != nb + 1 or w[0] != 'ok':
            chk.tie_broken('correspondence:literals-part', 'the model of the literals part could not follow the blocks of a real frame (%s): %s; input kept in %s' % (l, (r or '')[:80], keep_input(ln, line)))
            break
        if any(x[0] != '1' for x in w[1:]):
            k = [x[0] for x in w[1:]].index('0')
            chk.tie_broken('correspondence:literals-part', 'the model of the literals part (raw / new table / treeless decision, description, streams) does not write the literals section of compressed block %d of a real frame (%s; literals type %s); input kept in %s' % (k, l, w[1 + k][1:], keep_input(ln, line)))
            break
        nlit += nb
        for x in w[1:]:
            kinds_seen[x[1:]] = kinds_seen.get(x[1:], 0) + 1
    chk.cov['components']['literals-part'] = {'frames': len(cl), 'blocks_identical': nlit, 'literals_types': kinds_seen, 'frames_left_out_for_cost': nskipped[0],
                                               'drift_frames': sum(1 for m in cmeta if m[0].startswith('drifting'))}
    chk.cov['evaluations'] += nlit
    # ... and from the data: for small single-block inputs whose block has raw literals, the match finder model's report,
    # split as compress_block splits it, written by the block model, must be the real block (this is the chain of
    # C02_fastest_block_step_with_raw_literals executed end to end)
    fb = []
    for f, d, l, ln in items:
        # (frames of a reused compressor are left out: the recycled suffix stores have other capacities than a fresh
        # match finder's, so a fresh model legitimately finds other matches)
        if 0 < len(d) <= 6000 and 'level 1' in l and not l.startswith('reuse'):
            w = framegen.walk_blocks(f)
            if w and len(w[1]) == 1 and w[1][0][2] == 2 and (f[w[1][0][0] + 3] & 3) == 0:
                p, last, ty, size, body = w[1][0]
                fb.append((d, f[p + 3:p + 3 + body], l))
    fb = fb[:80 if thorough else 30]
    fr = model_run('fastblock', ['131072 %s %s' % (hexs(d), hexs(b)) for d, b, l in fb], timeout=1500)
    nfb = 0
    for (d, b, l), r in zip(fb, fr):
        w = (r or 'missing').split()
        if len(w) < 3 or w[0] != 'ok' or w[2] != hexs(b):
            chk.tie_broken('correspondence:fastest-block', 'match finder model + block model do not reproduce the real first block (%s, %d input bytes): model %s real %s' % (
                l, len(d), (r or '')[:80], hexs(b)[:80]))
            break
        if w[1] != '1':
            chk.tie_broken('model:fastest-block', 'a real first block does not meet the side conditions of the block theorem (%s, %d input bytes)' % (l, len(d)))
            break
        nfb += 1
    kinds = {}
    for c in cases:
        kinds[c['kind'].split('-')[0] if c['kind'].startswith('gen') else c['kind']] = kinds.get(c['kind'], 0) + 1
    chk.add_samples('roundtrip', len(items), len(set(f for f, d, l, ln in items)), [{'kind': cases[0]['kind'], 'command': lines[0][:120]}, {'kind': cases[-1]['kind'], 'command': lines[-1][:120]}],
                    rule='path-directed inputs (empty, 1 byte, 128 KiB -1/0/+1, two blocks, runs, treeless reuse, raw block between similar blocks, literal counts 1023..1026 and 16383..16385, wide / two-symbol alphabets, long matches and literal runs, far-end-of-window match, block-boundary straddle) and generated contents x {Uncompressed, Fastest} x reader fragment sizes {whole, 1, 7, 1000, 65536, 131071}; 2-4 frames through one reused compressor')
    chk.cov['components']['roundtrip'].update({'frames_model_vs_real': len(mlines), 'compressed_blocks_rewritten_identically_with_obligations_O1_O2': nrb, 'of_which_huffman_literals': nhuf, 'first_blocks_reproduced_from_data_by_matcher_and_block_models': nfb, 'block_types': block_type_histogram([f for f, d, l, ln in items])})


def block_type_histogram(frames):
    h = {}
    for f in frames:
        w = framegen.walk_blocks(f)
        if w:
            for b in w[1]:
                k = {0: 'raw', 1: 'rle', 2: 'compressed'}[b[2]]
                h[k] = h.get(k, 0) + 1
    return h
