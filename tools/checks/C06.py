"""C06 -- the decoded stream is independent of how the caller drives the decoder.

proof      : coq/props/C06.v (invariants of the drain paths and of the driver state machine over the frame model)
tie check  : random driver programs over the public API (decode_blocks with every strategy, collect, read,
             collect_to_writer into partial / failing sinks, decode_from_to with arbitrary chunking, StreamingDecoder
             reads, fragmenting sources) through the implementation and the extracted model, token by token
oracle     : every program must deliver exactly the frame's content, consume exactly the frame, and report the
             checksums of the content -- whatever the program
"""
from vlib import *
from checks.deccommon import *
import framegen, proggen


def make_pool(rng, n):
    """valid frames whose content is several times the window, so that draining mid-frame and wrap-around matter"""
    items, lines = [], []
    for _ in range(n):
        cls = 'small' if rng.below(3) else 'medium'
        data, c = framegen.gen_content(rng, cls)
        if rng.below(3) == 0 and len(data) < 3000:
            data = data * rng.range(2, 6)
        p = framegen.libzstd_params(rng, len(data))
        p['wlog'] = rng.choice([10, 10, 11, 12, 0])
        p['checksum'] = 1 if rng.below(4) else 0
        if rng.below(3) == 0:
            p['flush'] = rng.choice([300, 1000, 3000])
        items.append({'content': data, 'params': p, 'cls': c, 'producer': 'libzstd'})
        lines.append(framegen.zenc_line(data, p))
    res = zh_par('codec', lines)
    out = []
    for it, r in zip(items, res):
        w = r.split()
        if w and w[0] == 'ok':
            it['frame'] = bytes.fromhex(w[1])
            out.append(it)
    return out


def check_program(chk, f, toks_in, t, comp):
    """oracle for one program on one valid frame"""
    content = f['content']
    got = delivered(t)
    why = None
    bad_tok = next((x for x in t if x.endswith(':err') or x.endswith(':panic') or x.endswith(':stuck') or x.endswith(':loop') or x.startswith('?')), None)
    q = (tok(t, 'Q:', sum(1 for x in t if x.startswith('Q:')) - 1) or '').split(':')
    h = framegen.parse_frame_header(f['frame'])
    if bad_tok:
        why = 'a legal driver program ended in %s on a valid frame' % bad_tok
    elif got != content:
        k = next((i for i in range(min(len(got), len(content))) if got[i] != content[i]), min(len(got), len(content)))
        why = 'delivered bytes differ from the content at offset %d (delivered %d, content %d)' % (k, len(got), len(content))
    elif len(q) >= 8 and (int(q[1]) != len(f['frame']) or q[2] != '1' or q[3] != '0' or q[7] != '0'):
        why = 'after completion: consumed %s of %d bytes, finished=%s, can_collect=%s, source left=%s' % (q[1], len(f['frame']), q[2], q[3], q[7])
    else:
        want = xxh64(content) & 0xFFFFFFFF
        if h['checksum'] and int(q[4]) != want:
            why = 'checksum read from the frame is %s, XXH64 of the content is %d' % (q[4], want)
        elif tok(t, 'K:') is not None and tok(t, 'K:') != 'K:%d' % want:
            why = 'calculated checksum %s, XXH64 of the delivered bytes is %d' % (tok(t, 'K:'), want)
        # decode_from_to never reports more than it was given
        for x, y in zip(toks_in, [z for z in t if z != '|']):
            pass
    if why:
        chk.violation(why, {'component': comp, 'program': ' '.join(toks_in), 'frame_hex': hexs(f['frame'])[:300000],
                            'params': f['params'], 'class': f['cls'],
                            'how': 'echo "src=<frame_hex> <program>" | _build/cargo/release/zh prog'})
        return False
    return True


def run(chk):
    rng = SplitMix64(chk.seed).fork('C06')
    thorough = chk.tier == 'thorough'
    chk.prove('props/C06.v')
    if not prepare(chk):
        return
    pool = make_pool(rng, 120 if thorough else 40)
    per = 14 if thorough else 6
    progs, lines = [], []
    for f in pool:
        h = framegen.parse_frame_header(f['frame'])
        for k in range(per):
            toks = proggen.random_program(rng, len(f['frame']), bool(h and h['checksum']))
            frag = rng.choice([0, 0, 1, 2, 3, 7, 100, 4096])
            full = ['frag=%d' % frag, 'src=' + hexs(f['frame'])] + toks + ['Q', 'K']
            progs.append((f, toks, frag))
            lines.append(' '.join(full))
    impl, mod, dis = run_programs(chk, 'drivers', lines,
                                  describe=lambda i: '%s frag=%d on a %d-byte frame (%s %s)' % (' '.join(progs[i][1]), progs[i][2], len(progs[i][0]['frame']), progs[i][0]['cls'], progs[i][0]['params']))
    nbad = 0
    kinds = {}
    for (f, toks, frag), t in zip(progs, impl):
        kinds[toks[0][0] + toks[-1][:2]] = kinds.get(toks[0][0] + toks[-1][:2], 0) + 1
        if nbad < 3 and not check_program(chk, f, toks, t, 'drivers'):
            nbad += 1
        # decode_from_to reports exactly what it consumed and never more than it was given
        fi = [x for x in toks if x.startswith('F')]
        fo = [x for x in t if x.startswith('F:')]
        for a, b in zip(fi, fo):
            given = int(a[1:].split(',')[0])
            rd = b.split(':')[1]
            if rd.isdigit() and int(rd) > given and nbad < 3:
                nbad += 1
                chk.violation('decode_from_to reported %s consumed bytes but was given %d' % (rd, given),
                              {'component': 'drivers', 'program': ' '.join(toks), 'frame_hex': hexs(f['frame'])[:300000],
                               'how': 'echo "src=<frame_hex> <program>" | _build/cargo/release/zh prog'})
    chk.add_samples('drivers', len(lines), len(set(lines)),
                    [{'program': ' '.join(progs[i][1]), 'frag': progs[i][2], 'frame_bytes': len(progs[i][0]['frame']),
                      'content_bytes': len(progs[i][0]['content'])} for i in (0, len(progs) // 2, len(progs) - 1)],
                    rule='libzstd frames with windows of 1-4 KiB and contents several times the window (drain mid-frame, wrap-around), x random driver programs (block budgets, collect/read/collect_to_writer with partial and failing sinks, slice-to-slice chunkings incl. checksum alone, streaming reads), x source fragmentations; distinct = distinct (frame, program, fragmentation)')
    chk.cov['components']['drivers']['program_kinds'] = kinds
