"""C03 -- no input can make decoding panic, corrupt memory or hang.

proof      : coq/props/C03.v (headline C03_no_history_of_calls_panics: no history of entry-point calls on arbitrary byte
             strings makes the decoder model panic or run out of fuel; assembled from per-layer totality theorems under
             the scratch-space invariant; plus window memory safety (C04), FSE ranges (C12), block invariants (C05))
tie check  : structure-aware corruptions of valid frames, random byte strings and hostile dictionaries through every
             entry point, implementation (debug AND release builds) and extracted model: outcome classes must agree
oracle     : no panic, no timeout in the implementation; after an error the decoder can be reset and used again
"""
from vlib import *
from checks.deccommon import *
import framegen, synth, mutate


def entry_program(rng, size=0):
    r = rng.below(10)
    if r >= 8:
        # keep calling after errors: the decoder must keep returning errors (or data), never panic
        return 'I ' + 'B?b1 ' * 5 + rng.choice(['Zw,100', 'Zc,1', 'Zr,300', 'B?a C'])
    if r == 0: return 'I B?a C'
    if r == 1: return 'I ' + 'B?b1 R100 ' * 4 + 'Zr,1000'
    if r == 2: return 'I B?y%d C Zc,1' % rng.choice([1, 1000, 100000])
    if r == 3: return 'Zf,%d' % (rng.choice([1, 37, 100000]) if size < 4000 else rng.choice([211, 1000, 100000]))   # (the list-based model is quadratic in the number of calls)
    if r == 4: return 'SI Zs,%d' % (rng.choice([1, 500, 100000]) if size < 2000 else rng.choice([500, 100000]))
    if r == 5: return 'A%d' % rng.choice([0, 10, 100000, 1000000])
    if r == 6: return 'I B?a W3,50,1 W1000,1000000,0 Zw,100'
    return 'F20,10 F5,1000 Zf,%d' % (300 if size < 30000 else 5000)


def run(chk):
    rng = SplitMix64(chk.seed).fork('C03')
    thorough = chk.tier == 'thorough'
    chk.prove('props/C03.v')
    if not prepare(chk, ('debug', 'release')):
        return
    base = framegen.make_libzstd_frames(rng, 60 if thorough else 24, 'small') + framegen.make_libzstd_frames(rng, 30 if thorough else 10, 'tiny')
    base += framegen.make_libzstd_frames(rng, 10 if thorough else 4, 'medium')
    base += synth.make_sequence_frames(rng, 40 if thorough else 16) + synth.make_rle_repeat_frames(rng, 10 if thorough else 4)
    base += [f for f in framegen.make_ruzstd_frames(rng, 12 if thorough else 5, 'small') if f.get('frame')]
    good = base[0]['frame']
    # frames whose first block has Huffman-compressed literals: decoded first on half of the cases, so that the
    # malformed input meets a decoder that holds tables from an earlier frame
    warm = [f['frame'] for f in base if f.get('producer') == 'libzstd' and len(f['content']) > 300 and
            (lambda w: w and any(x[2] == 2 and mutate.lit_section(f['frame'], x[0]) for x in w[1][:1]))(framegen.walk_blocks(f['frame']))][:6]
    cases, lines = [], []
    per = 14 if thorough else 7

    def add(m, label):
        prog = entry_program(rng, len(m))
        pre = ''
        if warm and rng.below(2) == 0 and not prog.startswith(('SI', 'A', 'Zf', 'F')):
            pre = 'src=%s I Ba C ' % hexs(rng.choice(warm))
            label += '+used'
        elif warm and prog.startswith('A') and rng.below(2) == 0:
            m = rng.choice(warm) + m
            label += '+second-frame'
        # after the (likely) error: the same decoder must still work on a good frame
        cases.append(label)
        lines.append('%ssrc=%s %s src=%s I Ba C' % (pre, hexs(m), prog, hexs(good)))

    for f in base:
        for _ in range(per):
            add(*mutate.corrupt(rng, f['frame']))
    for m, label in mutate.tiny_huffman_frames(rng, 400 if thorough else 150):
        add(m, label)
    # a frame whose FIRST block claims to reuse a Huffman table (treeless) right after a frame that left one behind
    for f in base:
        w = framegen.walk_blocks(f['frame'])
        if not (warm and w and w[1] and w[1][0][2] == 2):
            continue
        ls = mutate.lit_section(f['frame'], w[1][0][0])
        if not ls or ls['type'] != 2:
            continue
        b = bytearray(f['frame'])
        b[w[1][0][0] + 3] |= 3
        for wf in warm[:3]:
            cases.append('treeless-first+used')
            lines.append('src=%s I Ba C src=%s I B?a C src=%s I Ba C' % (hexs(wf), hexs(bytes(b)), hexs(good)))
            cases.append('treeless-first+second-frame')
            lines.append('src=%s A1000000 src=%s I Ba C' % (hexs(wf + bytes(b)), hexs(good)))
    for _ in range(300 if thorough else 100):
        n = rng.choice([0, 1, 3, 4, 5, 9, 20, 100, 1000])
        head = rng.choice([b'', b'\x28\xb5\x2f\xfd', b'\x28\xb5\x2f\xfd\x00\x00', b'\x50\x2a\x4d\x18'])
        cases.append('random')
        lines.append('src=%s %s src=%s I Ba C' % (hexs(head + rng.bytes(n)), entry_program(rng, n + len(head)), hexs(good)))
    # hostile dictionaries: corrupted trained dictionaries and random bytes with the dictionary magic
    from checks.C07 import make_dicts
    for d, frs in make_dicts(rng, 2 if thorough else 1):
        for _ in range(60 if thorough else 25):
            dd, label = mutate.corrupt(rng, d)
            if rng.below(4) == 0:
                dd = d[:8] + rng.bytes(rng.range(0, 200))
            fr = rng.choice(frs)['frame'] if frs else good
            cases.append('dict-' + label)
            lines.append('dict=%s src=%s I B?a C force=%d src=%s I B?a C' % (hexs(dd), hexs(fr), rng.choice([0, 1, int.from_bytes(dd[4:8], 'little') if len(dd) >= 8 else 7]), hexs(fr)))
    # structurally valid dictionaries whose repeat offsets contain a zero (the format does not allow it, the loader does not
    # check): frames that use repeat-offset codes then select offset 0, which must end in an error, never in a loop
    for zi in range(6 if thorough else 3):
        d, info = synth.make_dictionary(rng, content=rng.bytes(rng.choice([33, 100, 1000])))
        clen = len(info['content'])
        reps = [[0, 0, 0], [5, 0, 8], [0, 4, 8], [1, 4, 0]][zi % 4]
        dz = d[:len(d) - clen - 12] + b''.join(r.to_bytes(4, 'little') for r in reps) + d[len(d) - clen:]
        for f in synth.make_dict_boundary_frames(rng, 40 if thorough else 20, info, name_dict=True):
            if 'repcode' not in f.get('features', ()):
                continue
            cases.append('dict-zero-repeat-offset')
            lines.append('dict=%s src=%s %s src=%s I Ba C' % (hexs(dz), hexs(f['frame']), rng.choice(['I B?a C', 'I B?b1 B?b1 B?a C', 'A100000', 'SI Zs,500']), hexs(good)))
    # a rejected FSE table description, then a block that REPEATS that table -- in the same frame (the caller keeps
    # calling after the error) and in the next frame of a re-used decoder (finding F13)
    for first, second, label in synth.make_broken_table_then_repeat(rng, 90 if thorough else 36):
        cases.append(label + '+in-frame')
        lines.append('src=%s I B?b1 B?b1 B?b1 B?b1 B?b1 src=%s I Ba C' % (hexs(first), hexs(good)))
        cases.append(label + '+reused')
        lines.append('src=%s I B?a src=%s I B?a C src=%s I Ba C' % (hexs(first), hexs(second), hexs(good)))
        cases.append(label + '+reused-decode-all')
        lines.append('src=%s A100000 src=%s A100000 src=%s I Ba C' % (hexs(first), hexs(second), hexs(good)))
    # ---- the invariant the theorems rest on, observed on the real decoder: after EVERY call (successful or not) each FSE
    # table of the scratch space is unset or consistent (2^accuracy_log entries, every state transition inside the table,
    # symbols inside the alphabet), the Huffman table is unset or complete.  A table that looks usable but is not is
    # exactly what findings F12 and F13 were; here it is reported without needing a later block that uses it.
    vlines, vlabels = [], []
    for first, second, label in synth.make_broken_table_then_repeat(rng, 60 if thorough else 24):
        vlines.append('src=%s I V B?b1 V B?b1 V B?b1 V B?b1 V src=%s I V B?a V' % (hexs(first), hexs(second))); vlabels.append(label)
    for f in base[:(40 if thorough else 16)]:
        for _ in range(4 if thorough else 2):
            m, label = mutate.corrupt(rng, f['frame'])
            vlines.append('src=%s I V B?b1 V B?b1 V B?b1 V B?a V src=%s I V Ba V' % (hexs(m), hexs(good))); vlabels.append('inv-' + label)
    for m, label in mutate.tiny_huffman_frames(rng, 120 if thorough else 40):
        vlines.append('src=%s I V B?a V src=%s I V B?a V' % (hexs(m), hexs(m))); vlabels.append('inv-' + label)
    LIM = [35, 31, 52]
    def table_state_ok(tok):
        if tok == 'V:none':
            return True, ''
        rows = [[int(x) for x in r.split(',')] for r in tok[2:].split(';')]
        for k in range(3):
            al, ln, reach, sym, bits, rle = rows[k]
            if al != 0 and not (ln == (1 << al) and reach <= (1 << al) and sym <= LIM[k] and bits <= al):
                return False, 'FSE table %s: accuracy_log %d, %d entries, states reach %d, largest symbol %d, largest bit count %d' % (['literal lengths', 'offsets', 'match lengths'][k], al, ln, reach, sym, bits)
            if rle != -1 and not (0 <= rle <= LIM[k]):
                return False, 'RLE symbol %d outside the alphabet of %s' % (rle, ['literal lengths', 'offsets', 'match lengths'][k])
        mb, ln, lo, hi = rows[3][:4]
        if mb != 0 and not (ln == (1 << mb) and 1 <= lo and hi <= mb):
            return False, 'Huffman table: max_num_bits %d, %d entries, code lengths %d..%d' % (mb, ln, lo, hi)
        return True, ''
    nv = nvtok = 0
    for prof in ('release',):
        rc, vr, err = zh('prog', vlines, prof, timeout=300)
        for ln, lab, r in zip(vlines, vlabels, vr):
            nv += 1
            for tok in r.split():
                if tok.startswith('V:'):
                    nvtok += 1
                    ok, why = table_state_ok(tok)
                    if not ok and len(chk.violations) < 4:
                        chk.violation('after a call the decoder holds a table that looks usable but is inconsistent (%s): a later block that uses it would index out of bounds' % why,
                                      {'component': 'scratch-invariant', 'kind': lab, 'program': ln[:300000], 'how': 'echo "<program>" | _build/cargo/release/zh prog  (V prints the table summary)'})
                        break
    chk.cov.setdefault('components', {})['scratch-invariant'] = {'programs': nv, 'observations': nvtok}
    # implementation, both builds, with a deadline per batch; model
    outs = {}
    nhang = 0
    for prof in ('release', 'debug'):
        res = []
        B = 150
        for s0 in range(0, len(lines), B):
            rc, r, err = zh('prog', lines[s0:s0 + B], prof, timeout=120)
            if rc == 124 or len(r) != len(lines[s0:s0 + B]):
                # find the case that does not terminate / crashes the process
                for j, ln in enumerate(lines[s0:s0 + B]):
                    if nhang >= 4:
                        # enough programs that do not return have been reported: the rest of the batch is not run
                        res += ['not-run']
                        continue
                    rc1, r1, e1 = zh('prog', [ln], prof, timeout=20)
                    if rc1 != 0 or len(r1) != 1:
                        nhang += 1
                        chk.violation('decoding did not return within 20 s or the process died (%s build, exit %s)' % (prof, rc1),
                                      {'component': 'malformed', 'program': ln[:300000], 'how': 'echo "<program>" | _build/cargo/%s/zh prog' % prof})
                        r1 = ['timeout']
                    res += r1
                continue
            res += r
        outs[prof] = res
    mod = model_run('prog', lines, timeout=900)
    nbad = 0
    klass = {}
    ndis = 0
    for i, (lab, ln) in enumerate(zip(cases, lines)):
        rel, dbg = outs['release'][i], outs['debug'][i]
        klass[lab] = klass.get(lab, 0) + 1
        for prof, r in (('release', rel), ('debug', dbg)):
            if ':panic' in r and nbad < 4:
                nbad += 1
                chk.violation('a decoding entry point panicked (%s build): %s' % (prof, next(x for x in r.split() if x.endswith(':panic'))),
                              {'component': 'malformed', 'kind': lab, 'program': ln[:300000], 'how': 'echo "<program>" | _build/cargo/%s/zh prog' % prof})
        t = rel.split()
        # reusable after an error: the trailing good frame must decode (plain frames only)
        if not lab.startswith('dict') and t and not (t[-1].startswith('C:') and t[-1] != 'C:none' and unhex(t[-1][2:]) == base[0]['content']):
            if nbad < 4 and ':panic' not in rel:
                nbad += 1
                chk.violation('after a failed frame the same decoder did not decode a valid frame: %s' % ' '.join(t[-3:])[:120],
                              {'component': 'malformed', 'kind': lab, 'program': ln[:300000], 'how': 'echo "<program>" | _build/cargo/release/zh prog'})
        a, b = canon_tokens(rel, False), canon_tokens(mod[i] or '', True)
        if a != b:
            ndis += 1
            if ndis == 1:
                k = next((j for j in range(min(len(a), len(b))) if a[j] != b[j]), min(len(a), len(b)))
                chk.tie_broken('correspondence:malformed', 'model and implementation differ on a %s input at token %d: impl %s model %s; program %s' % (
                    lab, k, (a[k] if k < len(a) else '<end>')[:60], (b[k] if k < len(b) else '<end>')[:60], ln[:300]))
        if canon_tokens(rel, False) != canon_tokens(dbg, False) and nbad < 4:
            nbad += 1
            chk.violation('debug and release builds behave differently', {'component': 'malformed', 'kind': lab, 'program': ln[:300000], 'release': rel[:300], 'debug': dbg[:300],
                                                                          'how': 'echo "<program>" | _build/cargo/{debug,release}/zh prog'})
    chk.cov['disagreements_checked'] += ndis
    errs = sum(1 for r in outs['release'] if ':err' in r)
    chk.add_samples('malformed', len(lines), len(set(lines)), [{'kind': cases[i], 'program': lines[i][:200]} for i in (0, len(lines) // 2, len(lines) - 1)],
                    rule='structure-aware corruptions (bit flips, truncation, insertion/deletion, block size/type fields, literals header, jump table, sequence header, bitstream tail, block splicing, descriptor bytes, zero runs) of libzstd / synthetic / own frames, random byte strings, corrupted dictionaries; each through one of eight entry-point programs and followed by a valid frame on the same decoder; distinct = distinct programs')
    chk.cov['components']['malformed'].update({'mutation_kinds': klass, 'programs_ending_in_error': errs})
    bit_reader(chk, rng, thorough)


def bit_reader(chk, rng, thorough):
    """the reversed bit reader: implementation = 64-bit container model = abstract reader, values and counters, for
    scripts that read across the start of the source"""
    lines = []
    for _ in range(6000 if thorough else 1500):
        n = rng.choice([0, 1, 2, 7, 8, 9, 15, 16, 17, 40, rng.range(0, 30)])
        ops = []
        for _ in range(rng.range(1, 30)):
            if rng.below(3) == 0:
                a, b, c = rng.choice([0, 5, 17, 26, 31, 56]), rng.choice([0, 1, 15, 16, 56]), rng.choice([0, 2, 15, 16, 56])
                if rng.below(2):
                    a, b, c = rng.below(32), rng.below(17), rng.below(17)
                ops.append('t%d,%d,%d' % (a, b, c))
            else:
                ops.append('g%d' % rng.choice([0, 1, 3, 7, 8, 9, 31, 32, 55, 56, rng.below(57)]))
        lines.append('%s %s' % (hexs(rng.bytes(n)), ' '.join(ops)))
    impl = zh_par('bits', lines)
    dbg = zh_par('bits', lines, 'debug')
    m64 = model_run('bits64', lines)
    mab = model_run('bitsabs', lines)
    ndis = 0
    for ln, a, d, b, c in zip(lines, impl, dbg, m64, mab):
        if a == 'panic' or d == 'panic':
            chk.violation('the reversed bit reader panicked (%s build)' % ('release' if a == 'panic' else 'debug'),
                          {'component': 'bit-reader', 'program': ln, 'how': 'echo "<program>" | _build/cargo/{release,debug}/zh bits   (<source-hex> g<n> = get_bits, t<a>,<b>,<c> = get_bits_triple)'})
            return
        if not (a == d == b == c):
            ndis += 1
            if ndis == 1:
                chk.tie_broken('correspondence:bit-reader', 'reversed bit reader: release %s | debug %s | container model %s | abstract reader %s ; script %s' % (
                    (a or '')[:80], (d or '')[:80], (b or '')[:80], (c or '')[:80], ln[:200]))
    chk.cov['disagreements_checked'] += ndis
    chk.add_samples('bit-reader', len(lines), len(set(lines)), [{'program': lines[0][:120]}],
                    rule='sources of 0..40 bytes, scripts of 1..29 reads: get_bits of 0..56 bits and get_bits_triple with offset/length widths up to 56 each (sum below and above 56), reading far past the beginning of the source')
