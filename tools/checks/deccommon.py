"""shared by the decoder-side checks: build, run driver programs on the implementation (harness `prog`) and on the
extracted Coq model (ocaml driver `prog`), compare token by token."""
import os, sys, re
from vlib import *
from xxh64 import xxh64


def prepare(chk, profiles=('release',)):
    ok, msg = regen()
    if not ok:
        chk.tie_broken('translator', msg)
        return False
    okh, hlog = build_harness(profiles)
    if not okh:
        chk.tie_broken('harness-build', hlog[-600:])
        return False
    oko, olog = build_ocaml()
    if not oko:
        chk.tie_broken('model-extraction', olog[-600:])
        return False
    return True


def hexs(b):
    return bytes(b).hex() if b else '-'


def unhex(s):
    return b'' if s == '-' else bytes.fromhex(s)


def canon_tokens(line, model):
    """K tokens differ by construction (implementation: checksum value; model: the hashed bytes): map both to the
    checksum value through the independent XXH64"""
    out = []
    skipping = False
    for t in line.split():
        # after an error the frame is lost and what the decoder then reports is unspecified (and the two sides
        # have consumed different amounts of the source): compare again from the next `src=` marker on
        if t == '|':
            skipping = False
        if skipping:
            continue
        if (t.endswith(':err') or t.endswith(':panic') or t.endswith(':err-vector-changed') or t.endswith(':stuck')) and t[0] in 'IBFSAZ':
            skipping = True
        if t.startswith('K:'):
            v = t[2:]
            if model:
                out.append('K:%d' % (xxh64(unhex(v)) & 0xFFFFFFFF))
            else:
                out.append('K:%s' % v)
        else:
            out.append(t)
    return out


def run_programs(chk, comp, lines, profile='release', describe=None, model=True):
    """returns (impl_tokens, model_tokens, disagreement indices)"""
    impl = zh_par('prog', lines, profile)
    if any(r is None or r == 'missing' for r in impl):
        chk.tie_broken('harness:' + comp, 'harness produced no result for some programs')
    impl_t = [canon_tokens(r or '', False) for r in impl]
    if not model:
        return impl_t, None, []
    mod = model_run('prog', lines)
    mod_t = [canon_tokens(r or '', True) for r in mod]
    dis = [i for i, (a, b) in enumerate(zip(impl_t, mod_t)) if a != b]
    chk.cov['disagreements_checked'] += len(dis)
    if dis:
        i = dis[0]
        a, b = impl_t[i], mod_t[i]
        k = next((j for j in range(min(len(a), len(b))) if a[j] != b[j]), min(len(a), len(b)))
        chk.tie_broken('correspondence:' + comp,
                       'model and implementation differ on %d of %d programs; first: program #%d token %d: impl %s, model %s; program: %s' % (
                           len(dis), len(lines), i, k, (a[k] if k < len(a) else '<end>')[:80], (b[k] if k < len(b) else '<end>')[:80],
                           (describe(i) if describe else lines[i][:200])))
    return impl_t, mod_t, dis


def tok(tokens, prefix, nth=0):
    """the nth token starting with prefix"""
    c = 0
    for t in tokens:
        if t.startswith(prefix):
            if c == nth:
                return t
            c += 1
    return None


def delivered(tokens):
    """all bytes handed to the caller by C/R/W/F/S/A tokens of one program, in order"""
    out = bytearray()
    for t in tokens:
        p = t.split(':')
        if p[0] in ('C', 'R', 'S', 'A') and len(p) >= 2 and p[1] not in ('none', 'err', 'panic', 'err-vector-changed'):
            out += unhex(p[1])
        elif p[0] in ('W', 'Z') and len(p) >= 3:
            out += unhex(p[1])
        elif p[0] == 'F' and len(p) >= 3:
            out += unhex(p[2])
    return bytes(out)
