"""C07 -- a reused decoder behaves exactly like a fresh one.

proof      : coq/props/C07.v (reset produces the same per-frame state as first use; nothing of the previous frame is
             reachable from it) over the decoder model
tie check  : histories (completed / abandoned after k blocks / truncated / corrupted frames, dictionary and plain
             frames, larger and smaller windows) followed by a probe frame, on one decoder and on a fresh one,
             through implementation and extracted model
oracle     : the probe's outcome (bytes, checksums, consumed count, success or error) must be identical on the reused
             and on the fresh decoder.  Probes include *suffix frames* (a valid frame with its first blocks removed):
             they use repeat-mode tables, treeless literals, repeat offsets and matches reaching before the start, so
             any state leaking from the history changes their outcome
"""
from vlib import *
from checks.deccommon import *
import framegen, synth


def suffix_frames(f):
    """frames made of the original header and the blocks from k on (k >= 1)"""
    w = framegen.walk_blocks(f['frame'])
    if not w:
        return []
    h, blocks, end = w
    out = []
    fr = f['frame']
    hdr = bytearray(fr[:h['hdr_len']])
    for k in range(1, len(blocks)):
        out.append(bytes(hdr) + fr[blocks[k][0]:])
    return out


def drop_block_frames(f):
    """frames with one inner block removed (the remaining blocks keep their order; the last-block flag stays where it
    was): what follows the gap relies on state the removed block would have set"""
    w = framegen.walk_blocks(f['frame'])
    if not w or len(w[1]) < 3:
        return []
    h, blocks, end = w
    fr = f['frame']
    out = []
    for j in range(1, len(blocks) - 1):
        p, last, ty, size, body = blocks[j]
        out.append(fr[:p] + fr[p + 3 + body:])
    return out


def multi_block_pool(rng, n):
    items, lines = [], []
    for _ in range(n):
        data, c = framegen.gen_content(rng, rng.choice(['small', 'small', 'medium']))
        if len(data) < 600:
            data = data * 5
        p = framegen.libzstd_params(rng, len(data))
        p['flush'] = rng.choice([200, 500, 1000, 3000])
        if len(data) // p['flush'] > 60:
            p['flush'] = len(data) // 60 + 1
        p['wlog'] = rng.choice([0, 10, 12, 17])
        items.append({'content': data, 'params': p, 'cls': c, 'producer': 'libzstd'})
        lines.append(framegen.zenc_line(data, p))
    res = zh_par('codec', lines)
    out = []
    for it, r in zip(items, res):
        w = r.split()
        if w and w[0] == 'ok':
            it['frame'] = bytes.fromhex(w[1])
            out.append(it)
    return out


def make_dicts(rng, n):
    """(dict bytes, [frames compressed with it])"""
    out = []
    for _ in range(n):
        samples = [framegen.gen_content(rng, 'small')[0] for _ in range(12)]
        samples = [s if len(s) > 200 else s * 40 + b'x' for s in samples]
        rc, res, err = zh('codec', ['ztrain %d %s' % (rng.choice([1000, 4000]), ' '.join(hexs(s) for s in samples))])
        w = res[0].split() if res else []
        if not w or w[0] != 'ok':
            continue
        d = bytes.fromhex(w[1])
        frames = []
        lines = []
        for s in samples[:4]:
            p = framegen.libzstd_params(rng, len(s))
            p['flush'] = 0
            lines.append(framegen.zenc_line(s, p, dict_hex=hexs(d)))
        rr = zh_par('codec', lines)
        for s, r in zip(samples[:4], rr):
            ww = r.split()
            if ww and ww[0] == 'ok':
                frames.append({'frame': bytes.fromhex(ww[1]), 'content': s, 'dict': d})
        out.append((d, frames))
    return out


def history_step(rng, f):
    """how one earlier frame is used"""
    fr = f['frame']
    r = rng.below(10)
    if r < 4:
        return 'src=%s I Ba C' % hexs(fr), 'complete'
    if r < 6:
        return 'src=%s I B?b%d' % (hexs(fr), rng.range(1, 3)), 'abandoned'
    if r < 7:
        return 'src=%s I B?b1 C B?y100' % hexs(fr), 'abandoned-drained'
    if r < 8:
        cut = rng.range(1, max(len(fr) - 1, 1))
        return 'src=%s I B?a' % hexs(fr[:cut]), 'truncated'
    b = bytearray(fr)
    for _ in range(rng.range(1, 3)):
        b[rng.range(min(6, len(b) - 1), len(b) - 1)] ^= 1 << rng.below(8)
    return 'src=%s I B?a C' % hexs(bytes(b)), 'corrupted'


def run(chk):
    rng = SplitMix64(chk.seed).fork('C07')
    thorough = chk.tier == 'thorough'
    chk.prove('props/C07.v')
    if not prepare(chk):
        return
    pool = multi_block_pool(rng, 40 if thorough else 16)
    pool += synth.make_sequence_frames(rng, 40 if thorough else 16)
    pool += synth.make_rle_repeat_frames(rng, 24 if thorough else 10)
    dicts = make_dicts(rng, 3 if thorough else 2)
    probes = []
    for f in pool:
        probes.append((f['frame'], 'valid'))
        for s in suffix_frames(f)[:3]:
            probes.append((s, 'suffix'))
        for s in drop_block_frames(f)[:2]:
            probes.append((s, 'gap'))
    for d, frs in dicts:
        for g in frs:
            probes.append((g['frame'], 'dict-frame-without-dict'))
    # frames whose FIRST compressed block repeats a sequence table: only decodable with a table left over from an
    # earlier frame (a fresh decoder must refuse them)
    rep_probes = [(second, 'repeat-first') for first, second, lab in synth.make_broken_table_then_repeat(rng, 30 if thorough else 12)]
    probes += rep_probes
    cases, lines = [], []
    seq_frames = [f for f in pool if f.get('cls', '').startswith('synthetic')]
    for probe, pkind in rep_probes:
        if not seq_frames:
            break
        h = rng.choice(seq_frames)
        probe_prog = 'src=%s I B?a C Q K' % hexs(probe)
        cases.append((pkind, ['complete']))
        lines.append('src=%s I Ba C %s new %s' % (hexs(h['frame']), probe_prog, probe_prog))
    for _ in range(260 if thorough else 90):
        probe, pkind = rng.choice(probes)
        steps, kinds = [], []
        use_dict = rng.below(3) == 0 and dicts
        pre = ''
        if use_dict:
            d, frs = rng.choice(dicts)
            pre = 'dict=%s ' % hexs(d)
            if frs:
                g = rng.choice(frs)
                steps.append('src=%s I Ba C' % hexs(g['frame']))
                kinds.append('dict-frame')
        for _ in range(rng.range(1, 3)):
            s, k = history_step(rng, rng.choice(pool))
            steps.append(s)
            kinds.append(k)
        # half of the probes are decoded block by block with the collectable amount observed after each step: what the
        # decoder retains depends on the window it believes the frame has
        probe_prog = ('src=%s I B?a C Q K' if rng.below(2) else 'src=%s I B?b1 Q B?b1 Q B?b2 Q R64 Q B?a Q C K') % hexs(probe)
        # the fresh decoder gets the same dictionaries registered
        line = '%s%s %s new %s%s' % (pre, ' '.join(steps), probe_prog, pre, probe_prog)
        cases.append((pkind, kinds))
        lines.append(line)
    # self-history: decode a frame up to block k (abandoned or completed), then probe with the frame's own suffix from
    # block k on: the reused decoder holds exactly the tables / offsets / window the suffix would need if anything leaked
    for f in pool:
        w = framegen.walk_blocks(f['frame'])
        if not w or len(w[1]) < 2:
            continue
        sfx = suffix_frames(f)
        for gi, g in enumerate(drop_block_frames(f)[:3]):
            probe_prog = 'src=%s I B?a C Q K' % hexs(g)
            for hist_prog, hk in (('src=%s I B?b%d' % (hexs(f['frame']), gi + 2), 'self-abandoned-after-%d' % (gi + 2)),
                                  ('src=%s I Ba C' % hexs(f['frame']), 'self-complete')):
                cases.append(('self-gap', [hk]))
                lines.append('%s %s new %s' % (hist_prog, probe_prog, probe_prog))
        for k in sorted(set([1, len(w[1]) - 1, rng.range(1, len(w[1]) - 1)])):
            probe = sfx[k - 1]
            probe_prog = 'src=%s I B?a C Q K' % hexs(probe)
            for hist_prog, hk in (('src=%s I B?b%d' % (hexs(f['frame']), k), 'self-abandoned-after-%d' % k),
                                  ('src=%s I Ba C' % hexs(f['frame']), 'self-complete')):
                cases.append(('self-suffix', [hk]))
                lines.append('%s %s new %s' % (hist_prog, probe_prog, probe_prog))
    impl, mod, dis = run_programs(chk, 'reuse', lines, describe=lambda i: '%s after %s' % cases[i])
    nbad = 0
    hist = {}
    for i, ((pkind, kinds), ln) in enumerate(zip(cases, lines)):
        for k in kinds:
            hist[k] = hist.get(k, 0) + 1
        hist['probe:' + pkind] = hist.get('probe:' + pkind, 0) + 1
    # compare reused vs fresh on the raw implementation tokens
    raw = zh_par('prog', lines)
    for i, r in enumerate(raw):
        t = r.split()
        # tokens after the last two '|' markers are the two probe runs
        idx = [j for j, x in enumerate(t) if x == '|']
        if len(idx) < 2:
            continue
        a = [x for x in t[idx[-2] + 1: idx[-1]] if not x.startswith('dict:')]
        b = [x for x in t[idx[-1] + 1:] if not x.startswith('dict:')]
        def norm(ts):
            out = []
            for x in ts:
                out.append(x)
                if x.endswith(':err') or x.endswith(':panic'):
                    break
            return out
        if norm(a) != norm(b) and nbad < 4:
            nbad += 1
            k = next((j for j in range(min(len(a), len(b))) if a[j] != b[j]), min(len(a), len(b)))
            chk.violation('a %s probe decodes differently on a reused decoder (history: %s) than on a fresh one: reused %s, fresh %s' % (
                cases[i][0], ', '.join(cases[i][1]), (a[k] if k < len(a) else '<end>')[:60], (b[k] if k < len(b) else '<end>')[:60]),
                {'component': 'reuse', 'program': lines[i][:600000], 'how': 'echo "<program>" | _build/cargo/release/zh prog'})
    chk.add_samples('reuse', len(lines), len(set(lines)),
                    [{'probe': cases[i][0], 'history': cases[i][1]} for i in (0, len(cases) // 2, len(cases) - 1)],
                    rule='1-3 earlier frames (completed, abandoned after k blocks, truncated, corrupted, dictionary frames) then a probe (valid frame, suffix frame using repeat/treeless/repeat-offset state, dictionary frame without its dictionary) on the same decoder and on a fresh one; distinct = distinct programs')
    chk.cov['components']['reuse']['histogram'] = hist
