"""C18 -- behaviour is the same with and without the std I/O layer and the hash feature.

proof      : coq/props/C18.v (read_exact / Take / read_to_end / write_all of the crate's own I/O layer meet the std::io contract
             for every script of short reads, interruptions and failures; the hash feature only sets the flag and appends
             the trailer, blocks and compressor state are identical)
tie check  : one driver source built against the four feature sets {std, no_std} x {hash, no hash}; its I/O primitive
             commands also run on the extracted model
oracle     : identical decoded bytes in all four builds (= the original data); identical frames within {hash} and within
             {no hash}; hash vs no hash frames differ exactly by descriptor bit 2 and the 4 trailer bytes (= XXH64)
"""
from vlib import *
from checks.deccommon import prepare, hexs, unhex
from xxh64 import xxh64
import framegen, encgen, subprocess, shutil

VARIANTS = [('std_hash', 'std hash'), ('std', 'std'), ('hash', 'hash'), ('none', '')]
H18 = os.path.join(VERIF, 'harness18')
T18 = os.path.join(BUILD, 'cargo18') if 'BUILD' in globals() else os.path.join(VERIF, '_build', 'cargo18')


def build_variants():
    logs = []
    try:
        shutil.copy('/repo/Cargo.lock', os.path.join(H18, 'Cargo.lock'))
    except OSError:
        pass
    for name, feats in VARIANTS:
        env = dict(os.environ, CARGO_NET_OFFLINE='true', CARGO_TARGET_DIR=os.path.join(T18, name))
        p = subprocess.run(['cargo', 'build', '--release', '--offline', '--no-default-features', '--features', feats], cwd=H18, env=env,
                           stdout=subprocess.PIPE, stderr=subprocess.STDOUT)
        if p.returncode != 0:
            return False, '%s: %s' % (name, p.stdout.decode('utf-8', 'replace')[-800:])
    return True, ''


def run18(name, lines):
    p = subprocess.run([os.path.join(T18, name, 'release', 'zh18')], input=('\n'.join(lines) + '\n').encode(), stdout=subprocess.PIPE, timeout=1200)
    out = p.stdout.decode().split('\n')
    return out[:len(lines)] + ['missing'] * (len(lines) - len(out) + 1)


def run(chk):
    rng = SplitMix64(chk.seed).fork('C18')
    thorough = chk.tier == 'thorough'
    chk.prove('props/C18.v')
    if not prepare(chk):
        return
    with Lock('cargo18'):
        ok, log = build_variants()
    if not ok:
        chk.tie_broken('feature-builds', log)
        return
    nb = [0]
    def bad(what, rep):
        if nb[0] < 5:
            nb[0] += 1
            rep['how'] = 'cd harness18 && cargo build --release --offline --no-default-features --features "<std|hash|both|none>" ; echo "<command>" | <target>/release/zh18'
            chk.violation(what, rep)

    # ---- decoding: frames from libzstd and from this crate, fragmenting sources, varied read sizes
    frames = framegen.make_libzstd_frames(rng, 50 if thorough else 20, 'small') + framegen.make_libzstd_frames(rng, 20 if thorough else 8, 'tiny')
    frames += framegen.make_libzstd_frames(rng, 10 if thorough else 4, 'medium') + framegen.make_libzstd_frames(rng, 4 if thorough else 1, 'large')
    lines, exp = [], []
    for f in frames:
        for _ in range(2):
            lines.append('dec %d %d %s' % (rng.choice([0, 1, 2, 7, 1000, 70000]), rng.choice([1, 3, 100, 4096, 200000]), hexs(f['frame'])))
            exp.append(f['content'])
        lines.append('decf %d %s' % (rng.choice([0, 1, 5, 1000]), hexs(f['frame'])))
        exp.append(f['content'])
        cut = f['frame'][:rng.below(len(f['frame']))]
        lines.append('dec %d %d %s' % (rng.choice([0, 1, 7]), 100, hexs(cut)))
        exp.append(None)
    outs = {name: run18(name, lines) for name, _ in VARIANTS}
    for i, ln in enumerate(lines):
        rs = [outs[name][i] for name, _ in VARIANTS]
        if len(set(rs)) != 1:
            bad('the four builds decode differently: %s' % ' | '.join('%s: %s' % (n, r[:40]) for (n, _), r in zip(VARIANTS, rs)), {'component': 'decode', 'command': ln[:300000]})
        elif exp[i] is not None:
            w = rs[0].split()
            if w[0] != 'ok' or unhex(w[1]) != exp[i]:
                bad('decoding through the I/O layer does not restore the content (all builds): %s' % rs[0][:60], {'component': 'decode', 'command': ln[:300000]})
        elif rs[0].startswith('panic'):
            bad('decoding a truncated frame panicked', {'component': 'decode', 'command': ln[:300000]})
    chk.add_samples('decode', len(lines), len(set(lines)), [{'command': lines[0][:120]}], rule='libzstd frames (tiny..large) through StreamingDecoder (source fragments 0/1/2/7/1000/70000, read buffers 1..200000) and FrameDecoder, plus truncated frames, in all four builds')

    # ---- compression
    lines, datas = [], []
    contents = [framegen.gen_content(rng, rng.choice(['tiny', 'small', 'medium']))[0] for _ in range(60 if thorough else 25)]
    contents += [b'', bytes(131072), rng.bytes(131073), encgen.literals(rng, 140000, 'text')]
    for d in contents:
        for level in (0, 1):
            lines.append('enc %d %d %s' % (level, rng.choice([0, 1, 7, 1000, 131071]) if len(d) < 50000 else rng.choice([0, 1000, 131071]), hexs(d)))
            datas.append(d)
    # reused compressors: the k-th frame of one object must be the same in the std and no_std builds, and the hash /
    # no-hash frames may differ only by the flag and the trailer (a reused object need not equal a fresh one: its
    # recycled hash tables may be larger)
    similar = [encgen.literals(rng, 20000, 'skew') for _ in range(3)]
    multi = []
    for _ in range(30 if thorough else 12):
        ds = [rng.choice(contents + similar + [x[::-1] for x in similar]) for _ in range(rng.range(2, 4))]
        ds = [x[:150000] for x in ds]
        multi.append((rng.below(2), ds))
    # frames with the same literal statistics in a row: state that leaks from one frame to the next shows here
    for _ in range(6 if thorough else 3):
        A = encgen.no_repeat_skewed(rng, rng.choice([3000, 20000]))
        multi.append((1, [A, A[::-1]]))
        multi.append((1, [A, rng.bytes(500), A[::-1], A]))
    mlines = ['encm %d %d %s' % (lv, 0, ' '.join(hexs(x) for x in ds)) for lv, ds in multi]
    mouts = {name: run18(name, mlines) for name, _ in VARIANTS}
    for j, ((lv, ds), ln) in enumerate(zip(multi, mlines)):
        a, b, c, d_ = (mouts[n][j] for n, _ in VARIANTS)
        if a != c or b != d_:
            bad('std and no_std builds write different frames from a reused compressor', {'component': 'encode', 'command': ln[:300000]})
            continue
        fa, fb = a.split()[1:], b.split()[1:]
        if not a.startswith('ok') or len(fa) != len(ds) or len(fb) != len(ds):
            bad('a reused compressor failed: %s' % a[:40], {'component': 'encode', 'command': ln[:300000]})
            continue
        for x, fh, fn in zip(ds, fa, fb):
            want = bytearray(unhex(fn))
            if len(want) > 4:
                want[4] |= 4
            if unhex(fh) != bytes(want) + (xxh64(x) & 0xFFFFFFFF).to_bytes(4, 'little'):
                bad('frames of a reused compressor: hash and no-hash builds differ by more than the checksum flag and trailer', {'component': 'encode', 'command': ln[:300000]})
                break
        zr = zh_par('codec', ['zdec %s' % h for h in fa])
        for x, r in zip(ds, zr):
            w = (r or 'missing').split()
            if w[0] != 'ok' or unhex(w[1] if len(w) > 1 else '-') != x:
                bad('a frame of a reused compressor does not decode to its input with the reference decoder: %s' % ' '.join(w)[:60], {'component': 'encode', 'command': ln[:300000]})
                break
    outs = {name: run18(name, lines) for name, _ in VARIANTS}
    for i, ln in enumerate(lines):
        a, b, c, d_ = (outs[n][i] for n, _ in VARIANTS)
        if a != c or b != d_:
            bad('std and no_std builds compress to different frames: %s.. vs %s..' % (a[:50], c[:50] if a != c else d_[:50]), {'component': 'encode', 'command': ln[:300000]})
            continue
        if not a.startswith('ok ') or not b.startswith('ok '):
            bad('compression failed: %s / %s' % (a[:30], b[:30]), {'component': 'encode', 'command': ln[:300000]})
            continue
        fh, fn = unhex(a.split()[1]), unhex(b.split()[1])
        want = bytearray(fn)
        if len(want) > 4:
            want[4] |= 4
        want = bytes(want) + (xxh64(datas[i]) & 0xFFFFFFFF).to_bytes(4, 'little')
        if fh != want:
            bad('hash and no-hash frames differ by more than the checksum flag and the 4 byte XXH64 trailer', {'component': 'encode', 'command': ln[:300000], 'hash': hexs(fh)[:200], 'nohash': hexs(fn)[:200]})
    chk.add_samples('encode', len(lines), len(set(lines)), [{'command': lines[0][:120]}], rule='generated contents, empty, 128 KiB zeros, 128 KiB + 1 random, 140000 text x {Uncompressed, Fastest} x source fragments, four builds')

    # ---- the I/O primitives themselves, four builds and the extracted model
    lines = []
    for _ in range(900 if thorough else 300):
        d = rng.bytes(rng.choice([0, 1, 2, 5, 16, 100]))
        r = rng.below(3)
        if r == 0:
            lines.append('rx %d %d %s' % (rng.choice([0, 1, 2, len(d), len(d) + 1, max(0, len(d) - 1), 7]), rng.choice([0, 1, 2, 3, 50]), hexs(d)))
        elif r == 1:
            lines.append('take %d %d %d %s' % (rng.choice([0, 1, 2, len(d), len(d) + 1, max(0, len(d) - 1), 1000, 2 ** 40]), rng.choice([0, 1, 2, 3, 50]), rng.choice([1, 2, 7, 100]), hexs(d)))
        else:
            lines.append('wa %d %s' % (rng.choice([0, 1, len(d), len(d) + 1, max(0, len(d) - 1), 200]), hexs(d)))
    outs = {name: run18(name, lines) for name, _ in VARIANTS}
    mod = model_run('io', lines)
    ndis = 0
    for i, ln in enumerate(lines):
        rs = [outs[name][i] for name, _ in VARIANTS]
        if len(set(rs)) != 1:
            bad('an I/O primitive behaves differently across the builds: %s' % ' | '.join('%s: %s' % (n, r[:50]) for (n, _), r in zip(VARIANTS, rs)), {'component': 'io', 'command': ln})
        if mod[i] != outs['none'][i]:
            ndis += 1
            if ndis == 1:
                chk.tie_broken('correspondence:io', 'the I/O model and the no_std build differ on "%s": model %s, build %s' % (ln[:100], (mod[i] or '')[:80], outs['none'][i][:80]))
    chk.cov['disagreements_checked'] += ndis
    # read_to_end appends: whatever the vector held before stays in front (std's contract), for every size around the
    # 16 KiB scratch buffer of the no_std implementation and every inner chunking
    rl, rexp = [], []
    for _ in range(120 if thorough else 40):
        pre = rng.bytes(rng.choice([0, 0, 1, 5, 100, 20000]))
        d = rng.bytes(rng.choice([0, 1, 100, 16383, 16384, 16385, 40000]))
        rl.append('rte %s %d %s' % (hexs(pre), rng.choice([0, 1000, 16384, 7]), hexs(d)))
        rexp.append('ok %s consumed=%d' % (hexs(pre + d), len(d)))
    routs = {name: run18(name, rl) for name, _ in VARIANTS}
    for i, ln in enumerate(rl):
        for name, _ in VARIANTS:
            if routs[name][i] != rexp[i]:
                bad('read_to_end does not append the data to what the vector held (build %s): got %s.. expected %s..' % (name, routs[name][i][:60], rexp[i][:60]),
                    {'component': 'io', 'command': ln[:300000], 'build': name})
                break
    chk.cov['components'].setdefault('io-read-to-end', {'evaluations': len(rl)})
    chk.cov['evaluations'] += len(rl)
    chk.add_samples('io', len(lines), len(set(lines)), [{'command': lines[0][:100]}, {'command': lines[-1][:100]}],
                    rule='read_exact (need around the source length, inner chunk 0/1/2/3/50), Take (limit 0..2^40 around the length, inner chunk, buffer size), write_all into a fixed slice (room around the data length)')
