"""C05 -- decoder memory is bounded by the window limit plus one block, for any input.

proof      : coq/props/C05.v (one block adds <= 128 KiB or is rejected; decode_blocks: held + budget + one block; drains
             retain only the window; reset establishes the invariant) over the decoder model
tie check  : hostile and ordinary frames, stepwise decoding, through the implementation and the extracted model
oracle     : after every decode call the implementation's buffered amount (can_collect + retained window) must stay
             within  previous + budget + 128 KiB; blocks regenerating more than 128 KiB must be refused
"""
from vlib import *
from checks.deccommon import *
import framegen, synth

MAXB = 131072


def hostile_literal_frames(rng):
    """compressed blocks whose literals section alone announces more than 128 KiB (finding F1)"""
    out = []
    for regen in (131073, 200000, (1 << 20) - 1):
        # RLE literals, 3-byte header, no sequences
        blk = framegen.rle_literals_header(regen, 3) + b'\x41' + b'\x00'
        f = framegen.frame_header_bytes(window_log=10) + framegen.block_header(1, 2, len(blk)) + blk
        out.append({'frame': f, 'content': None, 'cls': 'hostile-rle-literals-%d' % regen, 'producer': 'synthetic', 'oversized': True, 'over128k': True, 'params': {}})
        # raw literals announcing more than the block holds / more than 128 KiB
        blk = framegen.raw_literals_header(regen, 3) + rng.bytes(50) + b'\x00'
        f = framegen.frame_header_bytes(window_log=10) + framegen.block_header(1, 2, len(blk)) + blk
        out.append({'frame': f, 'content': None, 'cls': 'hostile-raw-literals-%d' % regen, 'producer': 'synthetic', 'oversized': True, 'over128k': True, 'params': {}})
    return out


def block_run_frames(rng, thorough):
    """long runs of RLE / raw blocks (cheap to store, large when regenerated): a budgeted decode call must stop after
    the block that reaches the budget whatever the block type"""
    out = []
    for k, size, kinds in ((40, 131072, 'rle'), (24, 100000, 'rle'), (10, 60000, 'raw'), (16, 131072, 'mixed')) + ((((80, 131072, 'rle'),) if thorough else ())):
        body, content = b'', b''
        for i in range(k):
            ty = {'rle': 1, 'raw': 0}.get(kinds, 1 if (i % 3) else 0)
            sz = size if ty == 1 else min(size, 50000)
            if ty == 1:
                b = rng.below(256)
                body += framegen.block_header(1 if i == k - 1 else 0, 1, sz) + bytes([b])
                content += bytes([b]) * sz
            else:
                d = rng.bytes(sz)
                body += framegen.block_header(1 if i == k - 1 else 0, 0, sz) + d
                content += d
        f = framegen.frame_header_bytes(window_log=17) + body
        out.append({'frame': f, 'content': content, 'cls': 'block-run-%s-%dx%d' % (kinds, k, size), 'producer': 'synthetic', 'params': {}})
    return out


def run(chk):
    rng = SplitMix64(chk.seed).fork('C05')
    thorough = chk.tier == 'thorough'
    chk.prove('props/C05.v')
    if not prepare(chk):
        return
    frames = hostile_literal_frames(rng)
    frames += block_run_frames(rng, thorough)
    frames += synth.make_sequence_frames(rng, 120 if thorough else 40, hostile=True)
    frames += [f for f in framegen.make_libzstd_frames(rng, 60 if thorough else 20, 'medium')]
    budgets = [1, 1000, 65536, 300000]
    progs, lines = [], []
    for f in frames:
        for n in ([rng.choice(budgets)] if not thorough else budgets[:2]):
            toks = ['I'] + ['B?y%d' % n, 'Q'] * 6 + ['B?b1', 'Q', 'B?b2', 'Q']
            progs.append((f, n, toks))
            lines.append('src=%s %s' % (hexs(f['frame']), ' '.join(toks)))
    impl, mod, dis = run_programs(chk, 'bounds', lines,
                                  describe=lambda i: '%s budget %d' % (progs[i][0]['cls'], progs[i][1]))
    nbad = 0
    rejected = accepted_big = 0
    for (f, n, toks), t in zip(progs, impl):
        h = framegen.parse_frame_header(f['frame'])
        wd = h['wd'] if h else 0
        window = h['fcs'] if (h and h['single']) else ((1 << (10 + (wd >> 3))) + ((1 << (10 + (wd >> 3))) // 8) * (wd & 7))
        prev_len = 0
        ops = [x for x in toks if x != 'I']
        outs = [x for x in t if x not in ('|', 'I:ok')]
        # walk the (B, Q) pairs the implementation produced
        i = 0
        last_budget = None
        for x in outs:
            if x.startswith('B:'):
                if x == 'B:err':
                    rejected += 1
                    break
                last_budget = True
            elif x.startswith('Q:'):
                q = x.split(':')
                can, fin = int(q[3]), q[2] == '1'
                # buffered amount: everything when finished, else collectable + retained window (at most)
                held_max = can if fin else can + window
                bound = prev_len + max(n, 2 * MAXB) + MAXB
                if can > bound and nbad < 3:
                    nbad += 1
                    chk.violation('after a decode call the decoder holds at least %d collectable bytes; bound was %d (previous %d + budget + one block)' % (can, bound, prev_len),
                                  {'component': 'bounds', 'frame_hex': hexs(f['frame'])[:100000], 'program': ' '.join(toks), 'class': f['cls'],
                                   'how': 'echo "src=<frame_hex> <program>" | _build/cargo/release/zh prog'})
                prev_len = held_max
        if f.get('over128k') and 'B:err' not in t and nbad < 3:
            nbad += 1
            accepted_big += 1
            chk.violation('a block regenerating more than 128 KiB was accepted', {'component': 'bounds', 'frame_hex': hexs(f['frame'])[:100000], 'class': f['cls'], 'program': ' '.join(toks),
                                                                                 'how': 'echo "src=<frame_hex> I Ba Q" | _build/cargo/release/zh prog'})
    chk.add_samples('bounds', len(lines), len(set(lines)),
                    [{'class': progs[i][0]['cls'], 'budget': progs[i][1], 'frame_bytes': len(progs[i][0]['frame'])} for i in (0, len(progs) // 2, len(progs) - 1)],
                    rule='hostile frames (literal sections announcing up to 2^20-1 bytes; sequence blocks with maximum-length matches beyond 128 KiB) and ordinary multi-block frames, decoded stepwise with byte/block budgets; distinct = distinct (frame, budget)')
    chk.cov['components']['bounds'].update({'oversized_blocks_refused': rejected, 'oversized_frames': sum(1 for f in frames if f.get('over128k'))})
