"""C08 -- content checksums are computed over exactly the delivered bytes.

proof      : coq/props/C08.v (the hasher is fed exactly the delivered bytes by every drain path, never by decoding)
tie check  : drain-heavy driver programs through implementation and model; the model's hashed byte sequence is run
             through an independent XXH64 and compared with the implementation's calculated checksum
oracle     : XXH64 (independent implementation, tools/xxh64.py) of the content; the compressor's trailer over
             reuse histories and read fragmentations
"""
from vlib import *
from checks.deccommon import *
import framegen, proggen
from checks.C06 import make_pool


def run(chk):
    rng = SplitMix64(chk.seed).fork('C08')
    thorough = chk.tier == 'thorough'
    chk.prove('props/C08.v')
    if not prepare(chk):
        return
    pool = make_pool(rng, 60 if thorough else 24)
    progs, lines = [], []
    for f in pool:
        for k in range(8 if thorough else 4):
            toks = ['I']
            for _ in range(rng.range(2, 9)):
                toks.append(rng.choice(['B?b1', 'B?y1000', 'B?y5000']))
                toks.append(proggen.drain_op(rng, True))
                if rng.below(3) == 0:
                    toks.append(proggen.drain_op(rng, True))
            toks += ['Z%s,%d' % (rng.choice('rcw'), rng.choice([1, 7, 1000, 70000])), 'Q', 'K']
            progs.append((f, toks))
            lines.append('src=%s %s' % (hexs(f['frame']), ' '.join(toks)))
    impl, mod, dis = run_programs(chk, 'drains', lines)
    nbad = 0
    for (f, toks), t in zip(progs, impl):
        got = delivered(t)
        want = xxh64(got) & 0xFFFFFFFF
        k = tok(t, 'K:')
        why = None
        if got != f['content']:
            why = 'delivered bytes differ from the content'
        elif k != 'K:%d' % want:
            why = 'calculated checksum %s, XXH64 of the delivered bytes is %d' % (k, want)
        else:
            h = framegen.parse_frame_header(f['frame'])
            q = (tok(t, 'Q:', sum(1 for x in t if x.startswith('Q:')) - 1) or '').split(':')
            if h['checksum'] and int(q[4]) != want:
                why = 'checksum stored in the frame %s differs from the calculated one %d' % (q[4], want)
        if why and nbad < 3:
            nbad += 1
            chk.violation(why, {'component': 'drains', 'program': ' '.join(toks), 'frame_hex': hexs(f['frame'])[:200000],
                                'how': 'echo "src=<frame_hex> <program>" | _build/cargo/release/zh prog'})
    chk.add_samples('drains', len(lines), len(set(lines)),
                    [{'program': ' '.join(progs[i][1]), 'frame_bytes': len(progs[i][0]['frame'])} for i in (0, len(progs) // 2, len(progs) - 1)],
                    rule='frames several windows long x programs alternating small decode budgets with collect/read/collect_to_writer (partial, failing sinks) so that every drain path runs on a wrapped ring buffer; distinct = distinct programs')
    # compressor trailer over reuse histories and read fragmentations
    clines, inputs = [], []
    for _ in range(40 if thorough else 14):
        nfr = rng.range(1, 4)
        datas = [framegen.gen_content(rng, rng.choice(['tiny', 'small', 'small', 'medium']))[0] for _ in range(nfr)]
        level = rng.choice([0, 1, 1])
        frag = rng.choice([0, 1, 7, 4095, 131071, 131072, 131073])
        if frag in (1, 7) and sum(len(d) for d in datas) > 30000:
            frag = 4095
        # half of the histories change the source only in place (source_mut / drain_mut) and end with one more
        # compress() on the exhausted source: that last frame holds no data
        cmd = rng.choice(['renc_multi', 'renc_multi_mut'])
        if cmd == 'renc_multi_mut':
            datas = datas + [b'']
            clines.append('%s %d %d %s' % (cmd, level, frag, ' '.join(hexs(d) for d in datas[:-1])))
        else:
            clines.append('%s %d %d %s' % (cmd, level, frag, ' '.join(hexs(d) for d in datas)))
        inputs.append((level, frag, datas))
    res = zh_par('codec', clines)
    ntr = 0
    for (level, frag, datas), r in zip(inputs, res):
        w = r.split()
        if not w or w[0] != 'ok' or len(w) - 1 != len(datas):
            chk.violation('the compressor failed on an input: %s' % r[:100], {'component': 'compressor-trailer', 'input': clines[ntr][:2000]})
            continue
        for d, fh in zip(datas, w[1:]):
            fr = unhex(fh)
            ntr += 1
            want = (xxh64(d) & 0xFFFFFFFF).to_bytes(4, 'little')
            if fr[-4:] != want or not (fr[4] & 4):
                if nbad < 3:
                    nbad += 1
                    chk.violation('frame %d of a reused compressor ends in %s, XXH64 of its input gives %s (checksum flag %d)' % (datas.index(d), fr[-4:].hex(), want.hex(), (fr[4] >> 2) & 1),
                                  {'component': 'compressor-trailer', 'level': level, 'frag': frag, 'inputs_hex': [hexs(x)[:100000] for x in datas],
                                   'command': clines[inputs.index((level, frag, datas))][:300000],
                                   'how': 'echo "<command>" | _build/cargo/release/zh codec'})
    chk.cov['components']['compressor-trailer'] = {'frames': ntr, 'compressors': len(inputs)}
    chk.cov['evaluations'] += ntr
