"""C10 -- exact frame boundaries: consumption, multi-frame decoding, truncation detection.

proof      : coq/props/C10.v (exact consumption of header and blocks; decoding depends only on the bytes it consumes;
             a truncated source makes the block loop fail) over the decoder model
tie check  : truncated frames at every cut point, concatenations with skippable frames, undersized targets, trailing
             garbage, through implementation and extracted model
oracle     : prefixes must end in an error, never in a finished state, and deliver a prefix of the content;
             decode_all returns exactly the concatenation or an error and leaves the vector unchanged on failure
"""
from vlib import *
from checks.deccommon import *
import framegen, synth


def skippable(rng, n):
    return (0x184D2A50 + rng.below(16)).to_bytes(4, 'little') + n.to_bytes(4, 'little') + rng.bytes(n)


def run(chk):
    rng = SplitMix64(chk.seed).fork('C10')
    thorough = chk.tier == 'thorough'
    chk.prove('props/C10.v')
    if not prepare(chk):
        return
    base = framegen.make_libzstd_frames(rng, 40 if thorough else 14, 'tiny') + framegen.make_libzstd_frames(rng, 30 if thorough else 10, 'small')
    base += [f for f in framegen.make_ruzstd_frames(rng, 10 if thorough else 4, 'small') if f.get('frame')]
    base += synth.make_sequence_frames(rng, 20 if thorough else 8)
    base = [f for f in base if len(f['frame']) < 6000]
    # the same frames with a dictionary-id field that is present but zero ("no dictionary"): legal, rarely produced
    extra = []
    for f in base[:12]:
        h = framegen.parse_frame_header(f['frame'])
        if h and (h['desc'] & 3) == 0:
            n = rng.choice([1, 2, 4])
            flag = {1: 1, 2: 2, 4: 3}[n]
            fr = f['frame']
            p = 5 + (0 if h['single'] else 1)
            g = dict(f)
            g['frame'] = fr[:4] + bytes([fr[4] | flag]) + fr[5:p] + bytes(n) + fr[p:]
            g['cls'] = f['cls'] + '+zero-dictid%d' % n
            extra.append(g)
    base += extra
    # ---- (1) truncation
    cases, lines = [], []
    for f in base:
        fr = f['frame']
        w = framegen.walk_blocks(fr)
        cuts = set(range(len(fr))) if len(fr) <= (400 if thorough else 120) else set()
        if w:
            h, blocks, end = w
            marks = [h['hdr_len']] + [p for p, *_ in blocks] + [p + 3 for p, *_ in blocks] + [len(fr) - 4, len(fr) - 1]
            for m in marks:
                for d in (-1, 0, 1):
                    if 0 <= m + d < len(fr):
                        cuts.add(m + d)
        for _ in range(12 if thorough else 5):
            cuts.add(rng.below(len(fr)))
        for c in sorted(cuts):
            style = rng.below(4)
            if style == 0:
                prog = 'I B?a Q C Q'
            elif style == 1:
                prog = 'I ' + 'B?b1 C ' * 6 + 'B?a C Q'
            elif style == 2:
                prog = 'Zf,%d Q' % rng.choice([1, 50, 100000])
            else:
                prog = 'SI Zs,%d Q' % rng.choice([1, 100, 100000])
            cases.append(('trunc', f, c, prog))
            lines.append('src=%s %s' % (hexs(fr[:c]), prog))
    # ---- (1b) truncation seen by a RE-USED decoder: a decoder that has just finished a frame with a checksum is given a
    # strict prefix of another one, cut in and around its last bytes (what a stale end-of-frame state would let through)
    ck_frames = [f for f in base if len(f['frame']) > 12 and (f['frame'][4] & 4)]
    for f in ck_frames[:(24 if thorough else 10)]:
        fr = f['frame']
        first = rng.choice(ck_frames)['frame']
        for c in sorted(set([len(fr) - 1, len(fr) - 2, len(fr) - 3, len(fr) - 4, len(fr) - 5, len(fr) - 6])):
            # (every program starts the new frame with a reset: decode_from_to alone does not start one on a finished decoder)
            prog = rng.choice(['I B?a Q C Q', 'I ' + 'B?b1 C ' * 4 + 'B?a C Q', 'I Zf,%d Q' % rng.choice([1, 100000])])
            cases.append(('trunc-reused', f, c, prog))
            lines.append('src=%s I Ba C src=%s %s' % (hexs(first), hexs(fr[:c]), prog))
    # ---- (2) exact consumption with trailing data
    for f in base:
        g = rng.bytes(rng.choice([1, 3, 4, 20]))
        cases.append(('trailing', f, len(g), 'I Ba Q C'))
        lines.append('src=%s I Ba Q C' % hexs(f['frame'] + g))
    # ---- (3) multi-frame decode_all
    for _ in range(60 if thorough else 20):
        k = rng.range(1, 4)
        parts, content = b'', b''
        for _ in range(k):
            if rng.below(3) == 0:
                parts += skippable(rng, rng.choice([0, 1, 10, 100]))
            f = rng.choice(base)
            parts += f['frame']
            content += f['content']
        if rng.below(3) == 0:
            parts += skippable(rng, rng.choice([0, 5]))
        kind = rng.choice(['exact', 'roomy', 'small', 'garbage', 'skip-trunc', 'cut'])
        cap = len(content)
        src = parts
        if kind == 'roomy': cap += rng.choice([1, 100, 100000])
        elif kind == 'small':
            if cap == 0: kind = 'exact'
            else: cap -= rng.choice([1, cap, max(cap // 2, 1)])
        elif kind == 'garbage': src = parts + rng.bytes(rng.choice([1, 4, 9]))
        elif kind == 'skip-trunc':
            s = skippable(rng, 50)
            src = parts + s[:rng.choice([3, 7, 8, 30, len(s) - 1])]
        elif kind == 'cut': src = parts[:len(parts) - rng.choice([1, 2, 4, 5])]
        cases.append(('multi', kind, content, cap))
        lines.append('src=%s A%d' % (hexs(src), max(cap, 0)))
    impl, mod, dis = run_programs(chk, 'boundaries', lines,
                                  describe=lambda i: str(cases[i][0]) + ' ' + (str(cases[i][2]) if cases[i][0] != 'multi' else cases[i][1]))
    nbad = 0
    def bad(why, i):
        nonlocal nbad
        if nbad < 4:
            nbad += 1
            chk.violation(why, {'component': 'boundaries', 'program': lines[i][:400000], 'how': 'echo "<program>" | _build/cargo/release/zh prog'})
    kinds = {}
    for i, (c, t) in enumerate(zip(cases, impl)):
        kinds[c[0] if c[0] != 'multi' else 'multi:' + c[1]] = kinds.get(c[0] if c[0] != 'multi' else 'multi:' + c[1], 0) + 1
        if c[0] in ('trunc', 'trunc-reused'):
            _, f, cut, prog = c
            if c[0] == 'trunc-reused':
                # only what the re-used decoder did with the prefix
                cutpos = max(j for j, x in enumerate(t) if x == '|')
                t = t[cutpos + 1:]
            qs = [x for x in t if x.startswith('Q:')]
            # a decoder that never got a header reports is_finished() = true by convention: not a frame state
            if any(q.split(':')[2] == '1' and q.split(':')[1] != '0' for q in qs):
                bad('a strict prefix (%d of %d bytes) of a valid frame ended in the finished state' % (cut, len(f['frame'])), i)
            elif not any(x.endswith(':err') or x.endswith(':stuck') for x in t) :
                bad('a strict prefix (%d of %d bytes) of a valid frame did not end in an error: %s' % (cut, len(f['frame']), ' '.join(t)[:200]), i)
            else:
                got = delivered(t)
                if f['content'][:len(got)] != got:
                    bad('bytes delivered from a strict prefix are not a prefix of the content', i)
        elif c[0] == 'trailing':
            _, f, glen, prog = c
            q = (tok(t, 'Q:') or '').split(':')
            if len(q) < 8 or int(q[1]) != len(f['frame']) or int(q[7]) != glen or q[2] != '1':
                bad('frame followed by %d bytes: consumed %s of %d, source left %s, finished %s' % (glen, q[1] if len(q) > 1 else '?', len(f['frame']), q[7] if len(q) > 7 else '?', q[2] if len(q) > 2 else '?'), i)
            elif delivered(t) != f['content']:
                bad('content differs when the frame is followed by other data', i)
        else:
            _, kind, content, cap = c
            a = tok(t, 'A:') or ''
            if a == 'A:err-vector-changed':
                bad('decode_all_to_vec changed the vector although it failed (%s)' % kind, i)
            elif kind in ('exact', 'roomy'):
                if a in ('A:err', 'A:panic') or unhex(a[2:]) != content:
                    bad('decode_all of a well-formed concatenation (%s): %s' % (kind, a[:80]), i)
            else:
                if a not in ('A:err',):
                    bad('decode_all accepted a %s input: %s' % (kind, a[:80]), i)
    chk.add_samples('boundaries', len(lines), len(set(lines)),
                    [{'kind': cases[i][0], 'program': lines[i][:160]} for i in (0, len(lines) // 2, len(lines) - 1)],
                    rule='every cut point of short frames and block/header/checksum boundaries +-1 of longer ones, driven four ways; frames followed by trailing bytes; concatenations with skippable frames into exact, roomy and undersized targets, with trailing garbage, truncated skippable frames and cut tails; distinct = distinct programs')
    chk.cov['components']['boundaries']['case_kinds'] = kinds
