"""C01 -- the decoder reproduces the original data for every valid Zstandard frame.

proof      : coq/props/C01.v  (the decoder inverts the writer of the format layer by layer: sequence execution =
             reference semantics, every literals layout, every combination of table modes, whole blocks, whole frames)
tie check  : whole frames through the implementation and through the extracted Coq model (token by token)
oracle     : the bytes that were compressed (frames come from libzstd at many settings, from this crate's compressor
             and from a hand frame builder), the declared content size, the stored checksum vs XXH64 of the content
"""
import os, sys
from vlib import *
from checks.deccommon import *
import framegen


def run(chk):
    rng = SplitMix64(chk.seed).fork('C01')
    thorough = chk.tier == 'thorough'
    chk.prove('props/C01.v')
    if not prepare(chk):
        return
    n = 1500 if thorough else 260
    frames = framegen.make_libzstd_frames(rng, n)
    import synth
    frames += synth.make_sequence_frames(rng, n // 2)
    frames += synth.make_rle_repeat_frames(rng, n // 10)
    frames += [f for f in framegen.make_ruzstd_frames(rng, n // 4) if f.get('frame')]
    frames += framegen.make_simple_synthetic(rng, n // 3)
    lines = ['src=%s I Q Ba Q C K Q' % hexs(f['frame']) for f in frames]
    impl, mod, dis = run_programs(chk, 'frames', lines,
                                  describe=lambda i: '%s %s %s (%d bytes -> %d)' % (frames[i]['producer'], frames[i]['cls'], frames[i]['params'], len(frames[i]['content']), len(frames[i]['frame'])))
    feats = {}
    bad = 0
    for f, t, ln in zip(frames, impl, lines):
        for x in framegen.frame_features(f['frame']):
            feats[x] = feats.get(x, 0) + 1
        content = f['content']
        got = delivered(t)
        why = None
        if tok(t, 'I:') != 'I:ok' or not (tok(t, 'B:') or '').startswith('B:ok:1'):
            why = 'a valid frame was refused: %s %s' % (tok(t, 'I:'), tok(t, 'B:'))
        elif got != content:
            k = next((i for i in range(min(len(got), len(content))) if got[i] != content[i]), min(len(got), len(content)))
            why = 'decoded bytes differ from the original at offset %d (decoded %d bytes, original %d)' % (k, len(got), len(content))
        else:
            h = framegen.parse_frame_header(f['frame'])
            q = (tok(t, 'Q:', 2) or '').split(':')
            if h and h['fcs'] is not None and int(q[5]) != len(content):
                why = 'content size reported %s, frame declares %d' % (q[5], len(content))
            elif h and h['checksum']:
                want = xxh64(content) & 0xFFFFFFFF
                if int(q[4]) != want:
                    why = 'checksum from data %s differs from XXH64 of the content %d' % (q[4], want)
                elif tok(t, 'K:') != 'K:%d' % want:
                    why = 'calculated checksum %s differs from XXH64 of the content %d' % (tok(t, 'K:'), want)
            elif h and not h['checksum'] and int(q[4]) != -1:
                why = 'a checksum is reported for a frame without one'
            if why is None and int(q[1]) != len(f['frame']):
                why = 'consumed %s bytes of a %d-byte frame' % (q[1], len(f['frame']))
        if why:
            bad += 1
            if bad <= 3:
                chk.violation(why, {'component': 'decode', 'producer': f['producer'], 'class': f['cls'], 'params': f['params'],
                                    'frame_hex': hexs(f['frame'])[:200000], 'content_hex': hexs(content)[:200000],
                                    'how': 'echo "src=<frame_hex> I Ba C" | _build/cargo/release/zh prog'})
    distinct = len(set(f['frame'] for f in frames))
    chk.add_samples('frames', len(frames), distinct,
                    [{'producer': f['producer'], 'class': f['cls'], 'params': f['params'], 'frame_bytes': len(f['frame']),
                      'content_bytes': len(f['content'])} for f in (frames[0], frames[len(frames) // 2], frames[-1])],
                    rule='libzstd frames over levels -5..22, window logs, checksum/content-size flags, long-distance mode and flush patterns; frames of this crate\'s compressor; hand-built raw/RLE/raw-literal frames; distinct = distinct frame byte strings')
    chk.cov['components']['frames']['feature_histogram'] = dict(sorted(feats.items()))
    # ---- sequences whose three extra-bit fields exceed 56 bits together: needs an offset code >= 26, i.e. more
    # than 64 MiB of history (built from RLE blocks).  Too large for the list-based model: implementation against the
    # RFC execution in tools/synth.py and libzstd.
    wide = synth.make_wide_sequence_frames(rng)
    for f in wide:
        z = zh('codec', ['zdeck %s' % hexs(f['frame'])], timeout=300)[1]
        z = (z[0] if z else 'missing').split()
        r = zh('prog', ['src=%s I Ba X Q' % hexs(f['frame'])], timeout=300)[1]
        t = (r[0] if r else 'missing').split()
        x = next((v for v in t if v.startswith('X:')), 'X:none')
        why = None
        if z[0] != 'ok' or z[1:3] != [str(f['length']), str(f['xxh'])]:
            chk.notes.append('libzstd does not confirm a hand-built wide-sequence frame (%s); skipped' % ' '.join(z)[:60])
            continue
        if x != 'X:%d:%d' % (f['length'], f['xxh']):
            why = 'a sequence needing more than 56 extra bits (%s) is decoded wrongly: %s, expected %d bytes with XXH64 %d' % (
                ', '.join(f['features']), ' '.join(v for v in t if v[0] in 'IBX')[:80], f['length'], f['xxh'])
        if why:
            chk.violation(why, {'component': 'wide-sequence', 'frame_hex': hexs(f['frame']),
                                'how': 'echo "src=<frame_hex> I Ba X" | _build/cargo/release/zh prog   (X prints length and XXH64 of the collected output)'})
    chk.add_samples('wide-sequence', len(wide), len(wide), [{'features': f['features'], 'frame_bytes': len(f['frame']), 'content_bytes': f['length']} for f in wide],
                    rule='513 RLE blocks of 128 KiB (64.1 MiB of history, window log 27) then one compressed block with a single sequence: offset code 26 with literal length 65536 / match length 32771 and with 32768 / 65539 (57 extra bits in one read)')
