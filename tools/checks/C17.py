"""C17 -- the built-in match finder reports only true, in-window matches that tile the block.

proof      : coq/props/C17.v over coq/model/Matcher.v (all block sequences, skip/match decisions, resets; any hash function)
tie check  : the real MatchGeneratorDriver (constructor through a hook, driven through the public Matcher trait) and
             the extracted model on the same operation sequences: identical sequences, window sizes, panics
oracle     : independent replay in Python: sequences tile the block, every match equals the bytes at its distance, distance
             <= advertised window and <= retained data
"""
from vlib import *
from checks.deccommon import prepare, hexs, unhex
import itertools


def content(rng, n, pool):
    """block content with repeats from earlier material"""
    out = bytearray()
    alpha = rng.choice([1, 2, 2, 3, 4, 16, 256])
    while len(out) < n:
        r = rng.below(5)
        if r == 0 and pool:
            src = rng.choice(pool)
            if src:
                a = rng.below(len(src))
                out += src[a:a + rng.range(1, 40)]
                continue
        if r == 1 and out:
            a = rng.below(len(out))
            out += out[a:a + rng.range(1, 30)]
            continue
        out += bytes(rng.below(alpha) for _ in range(rng.range(1, 12)))
    return bytes(out[:n])


def gen_line(rng, big=False):
    if big:
        slice_size, slices = rng.choice([(1024, 2), (4096, 1), (131072, 1), (512, 8)])
    else:
        slice_size, slices = rng.choice([(8, 1), (8, 4), (16, 4), (16, 1), (32, 3), (64, 2), (100, 3), (7, 5)])
    maxw = slice_size * slices
    ops = []
    pool = []
    for _ in range(rng.range(1, 14)):
        r = rng.below(20)
        if r == 0:
            ops.append('r')
            continue
        kind = rng.below(6)
        if kind == 0:
            n = rng.choice([0, 1, 4, 5, 6, maxw])
        elif kind <= 3:
            n = slice_size
        else:
            n = rng.range(0, min(maxw, slice_size * 2))
        n = min(n, maxw, 6000 if big else 400)
        b = content(rng, n, pool)
        pool.append(b)
        # 'C': committed through a buffer from get_next_space (capacity = slice size whatever the length), as the frame
        # compressor does; 'c': through an exactly sized buffer
        ops.append(('C' if rng.below(2) else 'c') + hexs(b))
        ops.append('k' if rng.below(5) == 0 else 'm')
    return '%d %d %s' % (slice_size, slices, ' '.join(ops))


def oracle(line, result):
    """-> None or a description of the failure"""
    w = line.split()
    maxw = int(w[0]) * int(w[1])
    ops = w[2:]
    res = result.split()
    if not res or res[0] != 'w:%d' % maxw:
        return 'advertised window %s, constructed with %d' % (res[:1], maxw)
    res = res[1:]
    entries = []          # retained blocks, oldest first
    for i, op in enumerate(ops):
        op = op.replace('C', 'c', 1) if op[0] == 'C' else op
        if i >= len(res):
            return 'no result for operation %d (%s)' % (i, op[:1])
        r = res[i]
        if r.endswith(':panic'):
            return 'panic in operation %d (%s)' % (i, {'c': 'commit_space', 'm': 'start_matching', 'k': 'skip_matching', 'r': 'reset'}[op[0]])
        if op[0] == 'c':
            b = unhex(op[1:])
            while entries and sum(len(e) for e in entries) + len(b) > maxw:
                entries.pop(0)
            entries.append(b)
        elif op[0] == 'r':
            entries = []
        elif op[0] == 'm':
            block = entries[-1]
            hist = bytearray(b''.join(entries[:-1]))
            base = len(hist)
            seqs = [] if r == 'm:-' else r[2:].split(';')
            for k, s in enumerate(seqs):
                if s[0] == 'L':
                    hist += unhex(s[1:])
                    if k != len(seqs) - 1:
                        return 'a literals-only sequence that is not the last of its block'
                else:
                    lit, off, ml = s[1:].split(',')
                    off, ml = int(off), int(ml)
                    hist += unhex(lit)
                    if off < 1 or off > len(hist):
                        return 'match distance %d exceeds the %d bytes retained before it (block %d, sequence %d)' % (off, len(hist), i, k)
                    if off > maxw:
                        return 'match distance %d exceeds the advertised window %d' % (off, maxw)
                    if ml < 3:
                        return 'match length %d below 3' % ml
                    for j in range(ml):
                        hist.append(hist[len(hist) - off])
                if bytes(hist[base:]) != block[:len(hist) - base]:
                    return 'sequence %d of operation %d does not reproduce the block (wrong literals or a false match)' % (k, i)
            if bytes(hist[base:]) != block:
                return 'the sequences of operation %d cover %d of %d block bytes' % (i, len(hist) - base, len(block))
    return None


def run(chk):
    rng = SplitMix64(chk.seed).fork('C17')
    thorough = chk.tier == 'thorough'
    chk.prove('props/C17.v')
    if not prepare(chk, ('release', 'debug')):
        return
    lines = []
    # exhaustive: all binary strings up to length L as one block after a fixed earlier block, and split into two blocks
    L = 12 if thorough else 10
    for n in range(0, L + 1):
        for bits in itertools.product((0, 1), repeat=n):
            b = bytes(bits)
            lines.append('8 2 c%s m' % hexs(b))
            if n >= 6:
                cut = n // 2
                lines.append('8 2 c%s m c%s m' % (hexs(b[:cut]), hexs(b[cut:])))
                lines.append('6 1 c%s k c%s m' % (hexs(b[:cut]), hexs(b[cut:])))
    nex = len(lines)
    # ternary strings of length 7-8 repeated with a gap (eviction boundary cases)
    for n in (7, 8):
        for t in itertools.islice(itertools.product((0, 1, 2), repeat=n), 0, None, 1 if thorough else 5):
            b = bytes(t)
            lines.append('8 3 c%s m c%s m c%s m c%s m' % (hexs(b), hexs(bytes(8)), hexs(b[1:] + b[:1]), hexs(b)))
    nrand = 6000 if thorough else 1500
    for _ in range(nrand):
        lines.append(gen_line(rng))
    small = len(lines)
    for _ in range(300 if thorough else 60):
        lines.append(gen_line(rng, big=True))
    rel = zh_par('matcher', lines, 'release')
    dbg = zh_par('matcher', lines, 'debug')
    mod = model_run('matcher', lines, timeout=1500)
    nb = 0
    ndis = 0
    for i, ln in enumerate(lines):
        for prof, r in (('release', rel[i]), ('debug', dbg[i])):
            why = oracle(ln, r or '')
            if why and nb < 5:
                nb += 1
                chk.violation('%s (%s build)' % (why, prof), {'component': 'matcher', 'program': ln[:200000], 'result': (r or '')[:2000],
                                                              'how': 'echo "<program>" | _build/cargo/%s/zh matcher   (ops: c<hex> commit_space, m start_matching, k skip_matching, r reset; first two numbers: slice size, slices in window)' % prof})
                break
        if rel[i] != mod[i] or dbg[i] != rel[i]:
            ndis += 1
            if ndis == 1:
                chk.tie_broken('correspondence:matcher', 'model, release and debug builds differ: program %s ; release %s ; debug %s ; model %s' % (ln[:300], (rel[i] or '')[:200], (dbg[i] or '')[:200], (mod[i] or '')[:200]))
    chk.cov['disagreements_checked'] += ndis
    nseq = sum(r.count('T') for r in rel if r)
    chk.add_samples('matcher', len(lines), len(set(lines)), [{'program': lines[i][:160], 'result': (rel[i] or '')[:160]} for i in (nex - 1, small - 1, len(lines) - 1)],
                    rule='exhaustive: every binary string of length <= %d as one block, as two blocks and after a skipped block (window 16 / 6); ternary strings of length 7-8 re-presented across evictions; %d random operation sequences (1-13 blocks of 0..2 slices, alphabets 1..256 with material repeated from earlier blocks, 5%% resets, 20%% skipped blocks) on scaled-down windows (slice 7..100 x 1..5); %d on windows up to the production 128 KiB x 1' % (L, nrand, len(lines) - small))
    # match lengths: those of 8 and more went through at least one whole chunk of the source's chunked comparison
    # (mismatch_chunks::<8>), those that are not a multiple of 8 also through its byte-wise tail
    mls = [int(t.split(',')[2]) for r in rel if r for w in r.split() if w.startswith('m:') and w != 'm:-' for t in w[2:].split(';') if t[0] == 'T']
    chk.cov['components']['matcher'].update({'exhaustive_lines': nex, 'matches_reported': nseq,
                                             'matches_of_8_or_more_bytes': sum(1 for m in mls if m >= 8),
                                             'matches_of_16_or_more_bytes': sum(1 for m in mls if m >= 16),
                                             'matches_of_8_or_more_with_byte_tail': sum(1 for m in mls if m >= 8 and m % 8),
                                             'longest_match': max(mls) if mls else 0})
