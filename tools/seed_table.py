#!/usr/bin/env python3
"""seed_table.py: the markdown table of DESIGN.md 13.6 from seeded/*/meta.json"""
import os, json
V = os.path.dirname(os.path.dirname(os.path.abspath(__file__)))
rows = []
for name in sorted(os.listdir(os.path.join(V, 'seeded'))):
    m = json.load(open(os.path.join(V, 'seeded', name, 'meta.json')))
    det = m.get('detection', {})
    caught, silent = [], []
    for c, r in det.items():
        if not isinstance(r, dict):
            continue
        if r['exit'] != 0:
            caught.append(c + ('*' if r.get('no_failing_input') else ''))
        else:
            silent.append(c)
    own = m['property']
    caught.sort(key=lambda x: (x.rstrip('*') != own, x))
    rows.append('| %s | %s | %s |' % (name, ', '.join(caught) or '-', ', '.join(silent) or '-'))
print('| seeded change | caught by (quick tier) | ran but stayed silent |\n|---|---|---|')
print('\n'.join(rows))
