"""Spec-directed frame builder: compressed blocks with raw/RLE literals and explicitly given sequences, coded with
predefined, RLE or repeat-mode tables (RFC 8878 4.1, Appendix A).  Lets the checks produce format features no available
compressor emits on demand: RLE-mode tables, repeat mode after RLE, offset code 3 with zero literal length, 2- and
3-byte sequence counts, offsets needing more than 56 extra bits together with the lengths, hostile block sizes."""
import c2v, os
from xxh64 import xxh64
from framegen import block_header, frame_header_bytes, raw_literals_header, rle_literals_header

_T = {}


def tables():
    if _T:
        return _T
    Z = c2v.zdir()
    internal = open(os.path.join(Z, 'common/zstd_internal.h')).read()
    dint = open(os.path.join(Z, 'decompress/zstd_decompress_internal.h')).read()
    for nm, src in [('LL_base', dint), ('ML_base', dint), ('LL_bits', internal), ('ML_bits', internal),
                    ('LL_defaultNorm', internal), ('ML_defaultNorm', internal), ('OF_defaultNorm', internal)]:
        _T[nm] = c2v.ints(c2v.c_array(src, nm))
    return _T


def build_dtable(probs, acc_log):
    """RFC 4.1.1 decoding table: list of (symbol, nbits, baseline)"""
    size = 1 << acc_log
    sym = [None] * size
    high = size - 1
    for s, p in enumerate(probs):
        if p == -1:
            sym[high] = s
            high -= 1
    pos = 0
    step = (size >> 1) + (size >> 3) + 3
    for s, p in enumerate(probs):
        if p <= 0:
            continue
        for _ in range(p):
            sym[pos] = s
            pos = (pos + step) & (size - 1)
            while pos > high:
                pos = (pos + step) & (size - 1)
    table = [None] * size
    count = {}
    for st in range(size):
        s = sym[st]
        p = probs[s]
        if p == -1:
            table[st] = (s, acc_log, 0)
            continue
        k = count.get(s, 0)
        count[s] = k + 1
        slices = p if (p & (p - 1)) == 0 else 1 << p.bit_length()
        double = slices - p
        single = p - double
        width = size // slices
        nb = width.bit_length() - 1
        if k < double:
            table[st] = (s, nb + 1, single * width + k * width * 2)
        else:
            table[st] = (s, nb, (k - double) * width)
    return table


def ll_code(v):
    T = tables()
    for c in range(35, -1, -1):
        if T['LL_base'][c] <= v:
            return c, v - T['LL_base'][c], T['LL_bits'][c]


def ml_code(v):
    T = tables()
    for c in range(52, -1, -1):
        if T['ML_base'][c] <= v:
            return c, v - T['ML_base'][c], T['ML_bits'][c]


def of_code(v):
    c = v.bit_length() - 1
    return c, v - (1 << c), c


class Tbl:
    """state of one symbol type across blocks: ('fse', dtable, acc_log) or ('rle', code)"""
    def __init__(self):
        self.cur = None


def predefined(kind):
    T = tables()
    if kind == 'll': return build_dtable(T['LL_defaultNorm'], 6), 6
    if kind == 'ml': return build_dtable(T['ML_defaultNorm'], 6), 6
    return build_dtable(T['OF_defaultNorm'], 5), 5


def seq_count_bytes(n):
    if n < 128: return bytes([n])
    if n < 0x7F00: return bytes([(n >> 8) + 128, n & 255])
    return bytes([255, (n - 0x7F00) & 255, (n - 0x7F00) >> 8])


def encode_sequences(seqs, modes, state):
    """seqs: [(ll, ml, offset_value)], modes: dict kind -> 'predef' | 'rle' | 'repeat'; state: dict kind -> Tbl.
    returns the sequences section bytes (count, modes byte, RLE bytes, bitstream) or None if not encodable"""
    n = len(seqs)
    if n == 0:
        return b'\x00'
    codes = {'ll': [ll_code(s[0]) for s in seqs], 'ml': [ml_code(s[1]) for s in seqs], 'of': [of_code(s[2]) for s in seqs]}
    mode_bits = {'predef': 0, 'rle': 1, 'repeat': 3}
    hdr = seq_count_bytes(n) + bytes([(mode_bits[modes['ll']] << 6) | (mode_bits[modes['of']] << 4) | (mode_bits[modes['ml']] << 2)])
    extra = b''
    for kind in ('ll', 'of', 'ml'):
        m = modes[kind]
        if m == 'predef':
            t, al = predefined(kind)
            state[kind].cur = ('fse', t, al)
        elif m == 'rle':
            c = codes[kind][0][0]
            if any(x[0] != c for x in codes[kind]):
                return None
            state[kind].cur = ('rle', c)
            extra += bytes([c])
        else:
            if state[kind].cur is None:
                return None
            if state[kind].cur[0] == 'rle' and any(x[0] != state[kind].cur[1] for x in codes[kind]):
                return None
    # choose FSE states backwards
    sts = {}
    for kind in ('ll', 'of', 'ml'):
        cur = state[kind].cur
        if cur[0] == 'rle':
            sts[kind] = None
            continue
        t = cur[1]
        chosen = [None] * n
        last = codes[kind][n - 1][0]
        cand = [i for i, e in enumerate(t) if e[0] == last]
        if not cand:
            return None
        chosen[n - 1] = cand[0]
        for k in range(n - 2, -1, -1):
            c = codes[kind][k][0]
            nxt = chosen[k + 1]
            found = None
            for i, e in enumerate(t):
                if e[0] == c and e[2] <= nxt < e[2] + (1 << e[1]):
                    found = i
                    break
            if found is None:
                return None
            chosen[k] = found
        sts[kind] = chosen
    # fields in the order the decoder reads them: (value, nbits)
    fields = []
    for kind in ('ll', 'of', 'ml'):
        if sts[kind] is not None:
            fields.append((sts[kind][0], state[kind].cur[2]))
    for k in range(n):
        fields.append((codes['of'][k][1], codes['of'][k][2]))
        fields.append((codes['ml'][k][1], codes['ml'][k][2]))
        fields.append((codes['ll'][k][1], codes['ll'][k][2]))
        if k < n - 1:
            for kind in ('ll', 'ml', 'of'):
                if sts[kind] is not None:
                    e = state[kind].cur[1][sts[kind][k]]
                    fields.append((sts[kind][k + 1] - e[2], e[1]))
    bits = []        # read order, first read first; each field most significant bit first
    for v, nb in fields:
        for i in range(nb - 1, -1, -1):
            bits.append((v >> i) & 1)
    total = len(bits) + 1
    pad = (-total) % 8
    read_order = [0] * pad + [1] + bits
    L = len(read_order)
    out = bytearray(L // 8)
    for p in range(L):
        if read_order[L - 1 - p]:
            out[p // 8] |= 1 << (p % 8)
    return hdr + extra + bytes(out)


def apply_sequences(history, literals, seqs, rep):
    """reference execution (RFC 3.1.1.4/3.1.1.5) on a bytearray history; returns None when invalid"""
    lp = 0
    for ll, ml, ov in seqs:
        if lp + ll > len(literals):
            return None
        history += literals[lp:lp + ll]
        lp += ll
        if ll > 0:
            if ov == 1: off = rep[0]
            elif ov == 2: off = rep[1]; rep[0], rep[1] = rep[1], rep[0]
            elif ov == 3: off = rep[2]; rep[0], rep[1], rep[2] = rep[2], rep[0], rep[1]
            else: off = ov - 3; rep[0], rep[1], rep[2] = off, rep[0], rep[1]
        else:
            if ov == 1: off = rep[1]; rep[0], rep[1] = rep[1], rep[0]
            elif ov == 2: off = rep[2]; rep[0], rep[1], rep[2] = rep[2], rep[0], rep[1]
            elif ov == 3: off = rep[0] - 1; rep[0], rep[1], rep[2] = off, rep[0], rep[1]
            else: off = ov - 3; rep[0], rep[1], rep[2] = off, rep[0], rep[1]
        if off <= 0 or off > len(history):
            return None
        start = len(history) - off
        if off >= ml:
            history += history[start:start + ml]
        else:
            pat = bytes(history[start:])
            history += (pat * (ml // off + 1))[:ml]
    history += literals[lp:]
    return history


def compressed_block(literals, lit_kind, seqs, modes, state, last, lit_fmt=None):
    """-> block bytes (with header) or None"""
    if lit_kind == 'rle':
        assert len(set(literals)) <= 1
        lit = rle_literals_header(len(literals), lit_fmt) + (bytes(literals[:1]) if literals else b'\x00')
    else:
        lit = raw_literals_header(len(literals), lit_fmt) + bytes(literals)
    sq = encode_sequences(seqs, modes, state)
    if sq is None:
        return None
    body = lit + sq
    if len(body) > 131072:
        return None
    return block_header(last, 2, len(body)) + body


def make_sequence_frames(rng, count, hostile=False):
    """frames whose compressed blocks carry explicit sequences.  hostile=True also produces blocks that regenerate
    more than 128 KiB (these must be rejected)"""
    out = []
    for _ in range(count):
        nblocks = rng.choice([1, 1, 2, 3])
        history = bytearray()
        rep = [1, 4, 8]
        state = {'ll': Tbl(), 'ml': Tbl(), 'of': Tbl()}
        body = b''
        ok = True
        oversized = False
        over128k = False
        wlog = rng.choice([10, 12, 17, 20, 22])
        maxblk = min(131072, 1 << wlog)        # Block_Maximum_Size: a block may not regenerate more than the window
        feats = set()
        for bi in range(nblocks):
            last = 1 if bi == nblocks - 1 else 0
            style = rng.below(10)
            if bi == 0 and rng.below(3):
                d = rng.bytes(min(maxblk, rng.choice([10, 100, 1000, 5000])))
                body += block_header(last, 0, len(d)) + d
                history += d
                continue
            nseq = rng.choice([1, 1, 2, 3, 5, 20, 127, 128, 300])
            if rng.below(40) == 0:
                nseq = rng.choice([0x7EFF, 0x7F00, 0x7F01])
            lit_kind = 'rle' if rng.below(4) == 0 else 'raw'
            seqs = []
            lits = bytearray()
            hl = len(history)
            rle_b = rng.below(256)
            budget = maxblk
            local_rep = list(rep)
            msum = 0
            for k in range(nseq):
                ll = rng.choice([0, 0, 1, 2, 3, 15, 16, 17, 40, 200]) if budget > 2000 else 0
                if rng.below(30) == 0 and budget > 70000 and nseq < 50:
                    ll = rng.choice([65535, 65536, 65537, 32768])
                ml = rng.choice([3, 3, 4, 5, 8, 34, 35, 36, 66, 131, 300]) if budget > 2000 else 3
                if rng.below(30) == 0 and budget > 70000 and nseq < 50:
                    ml = rng.choice([32770, 32771, 65538, 65539])
                if hostile and rng.below(4) == 0:
                    ml = rng.choice([65539, 131074, 100000])
                avail = hl + len(lits) + ll + msum
                r = rng.below(10)
                if avail == 0:
                    ll = max(ll, 1); avail = hl + len(lits) + ll + msum
                if r < 3:
                    ov = rng.choice([1, 2, 3])
                elif r < 9:
                    ov = 3 + rng.range(1, min(avail, 1 << wlog))
                else:
                    ov = 3 + min(avail, 1 << wlog)
                lits += bytes([rle_b]) * ll if lit_kind == 'rle' else rng.bytes(ll)
                seqs.append((ll, ml, ov))
                msum += ml
                budget -= ll + ml
                if budget < 0 and not hostile:
                    seqs.pop(); lits = lits[:len(lits) - ll]; msum -= ml
                    break
            tail = rng.choice([0, 0, 1, 5, 100]) if budget > 200 else 0
            lits += bytes([rle_b]) * tail if lit_kind == 'rle' else rng.bytes(tail)
            if not seqs:
                seqs = []
            modes = {}
            for kind in ('ll', 'ml', 'of'):
                opts = ['predef', 'predef', 'rle']
                if state[kind].cur is not None:
                    opts += ['repeat', 'repeat']
                modes[kind] = rng.choice(opts)
            total = len(lits) + msum
            if total > maxblk:
                oversized = True
            if total > 131072:
                over128k = True
            new_hist = apply_sequences(bytearray(history), bytes(lits), seqs, rep)
            if new_hist is None:
                ok = False
                break
            saved = {k: state[k].cur for k in state}
            blk = None
            for attempt in range(4):
                blk = compressed_block(bytes(lits), lit_kind, seqs, modes, state, last)
                if blk is not None:
                    break
                for k in state:
                    state[k].cur = saved[k]
                # not encodable in these modes (RLE with differing codes, repeat of an RLE table): fall back
                bad = [k for k in modes if modes[k] != 'predef']
                if not bad:
                    break
                modes[rng.choice(bad)] = 'predef'
            if blk is None:
                ok = False
                break
            body += blk
            history = new_hist
            for kind in modes:
                feats.add('%s-mode:%s' % (kind, modes[kind]))
            feats.add('lit:' + lit_kind)
            if any(s[0] == 0 and s[2] == 3 for s in seqs): feats.add('of3-ll0')
            if any(of_code(s[2])[2] + ll_code(s[0])[2] + ml_code(s[1])[2] > 56 for s in seqs): feats.add('bits>56')
            if len(seqs) >= 128: feats.add('seqcount2')
            if len(seqs) >= 0x7F00: feats.add('seqcount3')
        if not ok or not body:
            continue
        # close the frame if the loop ended early
        ck = rng.below(2)
        hdr = frame_header_bytes(window_log=wlog, fcs=(len(history) if rng.below(2) and not oversized else None), checksum=ck)
        f = hdr + body
        if ck:
            f += (xxh64(bytes(history)) & 0xFFFFFFFF).to_bytes(4, 'little')
        out.append({'frame': f, 'content': bytes(history), 'params': {'wlog': wlog}, 'cls': 'synthetic-seq',
                    'producer': 'synthetic', 'oversized': oversized, 'over128k': over128k, 'features': sorted(feats)})
    return out


def make_rle_repeat_frames(rng, count):
    """frames of the shape [raw block][compressed block: one kind in RLE mode][compressed block: that kind in repeat
    mode]: the third block is only decodable with the RLE symbol left by the second"""
    out = []
    for _ in range(count):
        kind = rng.choice(['of', 'of', 'll', 'ml'])
        wlog = rng.choice([12, 17])
        history = bytearray(rng.bytes(rng.choice([600, 2000])))
        body = block_header(0, 0, len(history)) + bytes(history)
        rep = [1, 4, 8]
        state = {'ll': Tbl(), 'ml': Tbl(), 'of': Tbl()}
        c = rng.range(5, 8)                        # offset code shared by all sequences
        fixed_ll = rng.choice([0, 3, 20])          # single literal-length / match-length codes
        fixed_ml = rng.choice([3, 7, 40])
        ok = True
        for bi, mode in enumerate(['rle', 'repeat']):
            seqs, lits = [], bytearray()
            for k in range(rng.range(1, 6)):
                ll = fixed_ll if kind == 'll' else rng.choice([1, 2, 5])
                ml = fixed_ml if kind == 'ml' else rng.choice([3, 4, 9])
                ov = (1 << c) + rng.below(1 << c) if kind == 'of' else 3 + rng.range(1, 400)
                lits += rng.bytes(ll)
                seqs.append((ll, ml, ov))
            modes = {'ll': 'predef', 'ml': 'predef', 'of': 'predef'}
            modes[kind] = mode
            new_hist = apply_sequences(bytearray(history), bytes(lits), seqs, rep)
            if new_hist is None:
                ok = False
                break
            blk = compressed_block(bytes(lits), 'raw', seqs, modes, state, 1 if bi == 1 else 0)
            if blk is None:
                ok = False
                break
            body += blk
            history = new_hist
        if not ok:
            continue
        f = frame_header_bytes(window_log=wlog, fcs=None, checksum=0) + body
        out.append({'frame': f, 'content': bytes(history), 'params': {'wlog': wlog, 'kind': kind}, 'cls': 'synthetic-rle-repeat',
                    'producer': 'synthetic', 'oversized': False, 'over128k': False, 'features': ['%s-mode:rle' % kind, '%s-mode:repeat' % kind]})
    return out


def make_dictionary(rng, dict_id=None, content=None):
    """a hand-built formatted dictionary (RFC 8878 section 5): magic, id, Huffman table (direct weights), OF / ML / LL
    FSE table descriptions, three repeat offsets, content.  Returns (bytes, info)"""
    import entropy_spec
    T = tables()
    dict_id = dict_id or rng.range(1, (1 << 31) - 1)
    content = content if content is not None else rng.bytes(rng.choice([8, 9, 33, 100, 257, 1000, 5000]))
    # tables: the predefined distributions, or perturbed ones (move probability mass between two symbols)
    dists = {}
    for kind, nm, al in (('of', 'OF_defaultNorm', 5), ('ml', 'ML_defaultNorm', 6), ('ll', 'LL_defaultNorm', 6)):
        p = list(T[nm])
        if rng.below(2):
            big = [i for i, x in enumerate(p) if x >= 2]
            i = rng.choice(big)
            j = rng.choice([k for k in range(len(p)) if k != i and p[k] >= 1])
            p[i] -= 1
            p[j] += 1
        dists[kind] = (p, al)
    nw = rng.choice([2, 4, 8])
    # weights: nw symbols of weight 1 (power of two count) -> the implied last weight completes the table
    weights = [1] * nw
    huf = bytes([127 + nw]) + bytes((weights[i] << 4) | (weights[i + 1] if i + 1 < nw else 0) for i in range(0, nw, 2))
    clen = len(content)
    reps = [rng.range(1, clen), rng.range(1, clen), rng.range(1, clen)]
    d = (0xEC30A437).to_bytes(4, 'little') + dict_id.to_bytes(4, 'little') + huf
    for kind in ('of', 'ml', 'll'):
        d += entropy_spec.fse_write_description(*dists[kind])
    for r in reps:
        d += r.to_bytes(4, 'little')
    d += content
    return d, {'id': dict_id, 'content': content, 'reps': reps, 'dists': dists}


def make_dict_boundary_frames(rng, count, dinfo, name_dict=True):
    """frames whose sequences reach into the dictionary content at every alignment with the dictionary/output boundary;
    tables in 'repeat' mode in the first block are the dictionary's tables; offset codes 1-3 in the first sequence are
    the dictionary's repeat offsets.  'expect' is None when the frame must be rejected (offset beyond dictionary plus
    output)."""
    out = []
    content = dinfo['content']
    clen = len(content)
    for _ in range(count):
        wlog = rng.choice([10, 10, 12, 17])
        history = bytearray(content)
        rep = list(dinfo['reps'])
        state = {'ll': Tbl(), 'ml': Tbl(), 'of': Tbl()}
        for kind in state:
            p, al = dinfo['dists'][kind]
            state[kind].cur = ('fse', build_dtable(p, al), al)
        body = b''
        feats = set()
        bad = False
        ambiguous = False
        produced = 0
        nblocks = rng.choice([1, 2, 3])
        if rng.below(3) == 0:
            d0 = rng.bytes(rng.choice([1, 7, 300]))
            body += block_header(0, 0, len(d0)) + d0
            history += d0
            produced += len(d0)
        ok = True
        for bi in range(nblocks):
            last = 1 if bi == nblocks - 1 else 0
            seqs, lits = [], bytearray()
            cur = produced
            for k in range(rng.choice([1, 2, 3, 8])):
                ll = rng.choice([0, 0, 1, 2, 5, 30])
                cur += ll
                r = rng.below(12)
                reach = cur + clen
                if r < 2:
                    ov = rng.choice([1, 2, 3]); feats.add('repcode')
                elif r < 5:
                    off = cur + rng.range(1, clen); ov = off + 3            # starts inside the dictionary
                elif r == 5:
                    off = reach; ov = off + 3; feats.add('first-dict-byte')
                elif r == 6:
                    off = cur + 1 if cur + 1 <= reach else reach; ov = off + 3; feats.add('last-dict-byte')
                elif r == 7 and cur > 0:
                    off = cur; ov = off + 3; feats.add('first-output-byte')
                elif r == 8 and rng.below(3) == 0:
                    off = reach + rng.choice([1, 2, 100]); ov = off + 3; bad = True; feats.add('beyond-dict')
                else:
                    off = rng.range(1, reach); ov = off + 3
                ml = rng.choice([3, 4, 5, 9, 40, 300])
                if ov > 3 and ov - 3 > cur:
                    in_dict = ov - 3 - cur
                    ml = rng.choice([3, in_dict - 1, in_dict, in_dict + 1, in_dict + 7, 2 * in_dict + 3])
                    ml = max(3, min(ml, 2000))
                    feats.add('straddle' if ml > in_dict else 'exact' if ml == in_dict else 'inside-dict')
                lits += rng.bytes(ll)
                seqs.append((ll, ml, ov))
                # a match that reaches into the dictionary once the frame has produced a window's worth of output:
                # the format makes the dictionary unreachable then (this crate rejects, libzstd is lenient): no verdict
                if ov > 3 and ov - 3 > cur and cur >= (1 << wlog) - 1:
                    ambiguous = True
                if ov <= 3 and cur >= (1 << wlog) - 1:
                    ambiguous = True          # a repeat offset may point into the dictionary as well
                cur += ml
            tail = rng.choice([0, 0, 3])
            lits += rng.bytes(tail)
            modes = {}
            for kind in ('ll', 'ml', 'of'):
                modes[kind] = rng.choice(['predef', 'repeat', 'repeat', 'rle'])
            new_hist = apply_sequences(bytearray(history), bytes(lits), seqs, rep)
            if new_hist is not None and len(new_hist) - len(history) > min(131072, 1 << wlog):
                ok = False
                break
            saved = {k: state[k].cur for k in state}
            blk = None
            for attempt in range(4):
                blk = compressed_block(bytes(lits), 'raw', seqs, modes, state, last if new_hist is not None else 1)
                if blk is not None:
                    break
                for k in state:
                    state[k].cur = saved[k]
                badm = [k for k in modes if modes[k] != 'predef']
                if not badm:
                    break
                modes[rng.choice(badm)] = 'predef'
            if blk is None:
                ok = False
                break
            body += blk
            for kind in modes:
                feats.add('%s-mode:%s%s' % (kind, modes[kind], '-dict' if modes[kind] == 'repeat' and bi == 0 else ''))
            if new_hist is None:
                history = None
                break
            produced += len(new_hist) - len(history)
            history = new_hist
        if not ok or not body:
            continue
        if history is not None and produced > (1 << wlog):
            feats.add('beyond-window')
        expect = bytes(history[clen:]) if history is not None else None
        ck = rng.below(2) if expect is not None else 0
        f = frame_header_bytes(window_log=wlog, fcs=None, checksum=ck, dict_id=dinfo['id'] if name_dict else 0) + body
        if ck:
            f += (xxh64(expect) & 0xFFFFFFFF).to_bytes(4, 'little')
        out.append({'frame': f, 'content': expect, 'params': {'wlog': wlog}, 'cls': 'synthetic-dict', 'producer': 'synthetic',
                    'features': sorted(feats), 'named': name_dict, 'ambiguous': ambiguous})
    return out


def make_wide_sequence_frames(rng):
    """frames with more than 64 MiB of history (RLE blocks) followed by one sequence whose offset code, match length
    and literal length need more than 56 extra bits together (offset code 26, 15/16 and 16/15 bits for the lengths):
    -> [{'frame', 'length', 'xxh'(of the content), 'features'}]"""
    from xxh64 import xxh64
    out = []
    for (ll, ml) in ((65536 + rng.range(1, 20000), 32771 + rng.range(1, 10000)), (32768 + rng.range(1, 10000), 65539 + rng.range(1, 20000))):
        nrle = 513
        body = b''
        content = bytearray()
        for i in range(nrle):
            b = (i * 7 + 1) % 251
            body += block_header(0, 1, 131072) + bytes([b])
            content += bytes([b]) * 131072
        lits = rng.bytes(ll + 5)
        off = (1 << 26) + 12345 + rng.below(1000)
        seqs = [(ll, ml, off + 3)]
        state = {'ll': Tbl(), 'ml': Tbl(), 'of': Tbl()}
        modes = {'ll': 'predef', 'ml': 'predef', 'of': 'predef'}
        rep = [1, 4, 8]
        new = apply_sequences(content, lits, seqs, rep)      # in place on the bytearray
        if new is None:
            continue
        blk = compressed_block(lits, 'raw', seqs, modes, state, 1)
        if blk is None:
            continue
        f = frame_header_bytes(window_log=27, fcs=None, checksum=1) + body + blk
        h = xxh64(bytes(new))
        f += (h & 0xFFFFFFFF).to_bytes(4, 'little')
        out.append({'frame': f, 'length': len(new), 'xxh': h, 'features': ['bits>56', 'of-code-26', 'll%d' % ll, 'ml%d' % ml]})
    return out


def make_broken_table_then_repeat(rng, count):
    """hostile histories around a rejected FSE table description (finding F13): a frame
    [optional valid compressed block] [compressed block whose description of one sequence table is rejected]
    [compressed block that REPEATS that table], and a second frame whose first compressed block repeats the table
    (for a decoder that is re-used after the error).  -> list of (first_frame, second_frame, label)"""
    out = []
    for _ in range(count):
        kind = rng.choice(['of', 'of', 'll', 'ml'])
        with_valid = rng.below(3) != 0
        how = rng.choice(['acclog', 'acclog', 'truncated', 'garbage'])
        history = bytearray(rng.bytes(rng.choice([300, 900])))
        body = block_header(0, 0, len(history)) + bytes(history)
        rep = [1, 4, 8]
        state = {'ll': Tbl(), 'ml': Tbl(), 'of': Tbl()}

        def good_block(mode_for_kind, last, hist, st, rp):
            seqs, lits = [], bytearray()
            for k in range(rng.range(1, 4)):
                ll = rng.choice([1, 2, 5]); ml = rng.choice([3, 4, 9]); ov = 3 + rng.range(1, 200)
                lits += rng.bytes(ll)
                seqs.append((ll, ml, ov))
            modes = {'ll': 'predef', 'ml': 'predef', 'of': 'predef'}
            modes[kind] = mode_for_kind
            nh = apply_sequences(bytearray(hist), bytes(lits), seqs, rp)
            if nh is None:
                return None, hist
            blk = compressed_block(bytes(lits), 'raw', seqs, modes, st, last)
            return blk, nh
        if with_valid:
            blk, history = good_block('predef', 0, history, state, rep)
            if blk is None:
                continue
            body += blk
        # the block with the rejected description: raw literals, one sequence, the table of `kind` "FSE compressed"
        mode_bits = {'ll': 6, 'of': 4, 'ml': 2}
        desc = {'acclog': bytes([0x0F | (rng.below(16) << 4)]) + rng.bytes(rng.range(0, 4)),
                'truncated': bytes([rng.below(4)]),
                'garbage': rng.bytes(rng.range(1, 6))}[how]
        sq = bytes([1, 2 << mode_bits[kind]]) + desc
        lit = raw_literals_header(1, None) + b'A'
        bad = lit + sq
        body += block_header(0, 2, len(bad)) + bad
        # a block that repeats the table; its bit stream is written for the table the writer still "has"
        if state[kind].cur is None:
            t, al = predefined(kind)
            state[kind].cur = ('fse', t, al)
            for k2 in ('ll', 'ml', 'of'):
                if state[k2].cur is None:
                    t2, al2 = predefined(k2)
                    state[k2].cur = ('fse', t2, al2)
        blk, _ = good_block('repeat', 1, history, state, rep)
        if blk is None:
            continue
        first = frame_header_bytes(window_log=12, fcs=None, checksum=0) + body + blk
        # second frame for a re-used decoder: raw block, then a block that repeats the table right away
        st2 = {'ll': Tbl(), 'ml': Tbl(), 'of': Tbl()}
        for k2 in ('ll', 'ml', 'of'):
            t2, al2 = predefined(k2)
            st2[k2].cur = ('fse', t2, al2)
        h2 = bytearray(rng.bytes(400))
        blk2, _ = good_block('repeat', 1, h2, st2, [1, 4, 8])
        if blk2 is None:
            continue
        second = frame_header_bytes(window_log=12, fcs=None, checksum=0) + block_header(0, 0, len(h2)) + bytes(h2) + blk2
        out.append((first, second, 'broken-%s-table-%s%s' % (kind, how, '+valid-before' if with_valid else '')))
    return out
