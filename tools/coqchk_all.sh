#!/bin/bash
# independent re-check of every compiled property file (and everything it depends on) with coqchk; prints the axiom summary
cd "$(dirname "$0")/../coq" || exit 2
mods=$(ls props/*.v | sed 's|props/\(.*\)\.v|Zrs.props.\1|' | tr '\n' ' ')
coqchk -o -silent -Q . Zrs $mods 2>&1 | tail -14
