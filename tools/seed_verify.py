#!/usr/bin/env python3
"""seed_verify.py <seed_dir> <property-id> <variant>: confirm a seeded defect delivered by a sub-agent in a scratch
worktree: (a) demo passes on the clean tree, (b) the existing suite passes with the patch, (c) the demo fails with the
patch.  On success the seed is stored under /verif/seeded/<id>_<variant>/ with meta.json."""
import sys, os, re, subprocess, json, shutil
seed, pid, var = sys.argv[1:4]
WT = '/tmp/wt_eval_%s%s' % (pid, var)
TGT = '/tmp/wt_eval_target_%s%s' % (pid, var)
env = dict(os.environ, CARGO_NET_OFFLINE='true', CARGO_TARGET_DIR=TGT)

def sh(cmd, cwd=WT, timeout=3000):
    p = subprocess.run(cmd, shell=True, cwd=cwd, env=env, stdout=subprocess.PIPE, stderr=subprocess.STDOUT, timeout=timeout)
    return p.returncode, p.stdout.decode('utf-8', 'replace')

notes = open(os.path.join(seed, 'notes.md')).read()
m = re.search(r"(?:ruzstd|cli)/(?:src/)?tests/[A-Za-z0-9_]+\.rs", notes)
place = m.group(0)
name = os.path.basename(place)[:-3]
inlib = '/src/tests/' in place
pkg = 'ruzstd-cli' if place.startswith('cli/') else 'ruzstd'
feat = ' --features dict_builder' if 'dict_builder' in notes and pid == 'C20' else ''
feat += (' ' + os.environ['SEED_DEMO_FLAGS']) if os.environ.get('SEED_DEMO_FLAGS') else ''
demo_cmd = ('cargo test -p %s --offline%s --lib %s' % (pkg, feat, name)) if inlib else ('cargo test -p %s --offline%s --test %s' % (pkg, feat, name))
demo_cmd += (' ' + os.environ['SEED_TEST_ARGS']) if os.environ.get('SEED_TEST_ARGS') else ''
subprocess.run('git -C /repo worktree remove --force %s' % WT, shell=True, stdout=subprocess.DEVNULL, stderr=subprocess.DEVNULL)
rc, out = sh('git -C /repo worktree add -q --detach %s HEAD' % WT, cwd='/')
res = {'property': pid, 'variant': var, 'demo_place': place, 'demo_cmd': demo_cmd}

def put_demo():
    os.makedirs(os.path.dirname(os.path.join(WT, place)), exist_ok=True)
    shutil.copy(os.path.join(seed, 'demo.rs'), os.path.join(WT, place))
    if inlib:
        with open(os.path.join(WT, 'ruzstd/src/tests/mod.rs'), 'a') as f:
            f.write('\npub mod %s;\n' % name)

def del_demo():
    os.remove(os.path.join(WT, place))
    if inlib:
        sh('git checkout -- ruzstd/src/tests/mod.rs')

def passed(out):
    return ('test result: ok' in out) and ('FAILED' not in out) and not re.search(r"test result: ok\. 0 passed", out.split('Doc-tests')[0])

try:
    put_demo()
    rc, out = sh(demo_cmd + ' 2>&1 | tail -15')
    res['demo_clean_pass'] = passed(out)
    res['demo_clean_tail'] = out[-600:]
    del_demo()
    rc, out = sh('git apply %s' % os.path.join(seed, 'patch.diff'))
    res['patch_applies'] = rc == 0
    res['apply_out'] = out[-300:]
    rc, out = sh('cargo test --workspace --offline 2>&1 | grep -E "^test result|FAILED|^error" | head -12')
    oks = re.findall(r"test result: ok\. (\d+) passed", out)
    res['suite_with_patch'] = out[-500:]
    res['suite_passes_with_patch'] = ('FAILED' not in out) and ('error' not in out) and sum(int(x) for x in oks) >= 82
    put_demo()
    rc, out = sh(demo_cmd + ' 2>&1 | tail -25')
    res['demo_fails_with_patch'] = ('FAILED' in out) or ('panicked' in out)
    res['demo_patched_tail'] = out[-800:]
    res['confirmed'] = bool(res['demo_clean_pass'] and res['patch_applies'] and res['suite_passes_with_patch'] and res['demo_fails_with_patch'])
finally:
    subprocess.run('git -C /repo worktree remove --force %s' % WT, shell=True, stdout=subprocess.DEVNULL, stderr=subprocess.DEVNULL)
    shutil.rmtree(TGT, ignore_errors=True)
if res.get('confirmed'):
    dst = '/verif/seeded/%s_%s' % (pid, var)
    os.makedirs(dst, exist_ok=True)
    shutil.copy(os.path.join(seed, 'patch.diff'), dst)
    shutil.copy(os.path.join(seed, 'demo.rs'), dst)
    shutil.copy(os.path.join(seed, 'notes.md'), os.path.join(dst, 'agent_notes.md'))
    meta = {'property': pid, 'variant': var, 'demo_place': place, 'demo_cmd': demo_cmd,
            'confirmed_by': 'tools/seed_verify.py in a scratch worktree of /repo HEAD: demo passes clean, suite passes with patch (%s), demo fails with patch' % re.sub(r"\s+", " ", res['suite_with_patch'])[:200],
            'needs_to_manifest': 'see agent_notes.md', 'detected_by': 'pending'}
    json.dump(meta, open(os.path.join(dst, 'meta.json'), 'w'), indent=1)
print(json.dumps({k: v for k, v in res.items() if not k.endswith('_tail') and k not in ('suite_with_patch', 'apply_out')}))
if not res.get('confirmed'):
    print(json.dumps(res, indent=1)[:3000])
