"""generators of driver programs (token lists understood by harness `prog` and by the model's driver)"""
from vlib import *

SIZES = [1, 2, 3, 7, 16, 100, 1000, 1024, 4096, 65536, 131072, 200000]


def drain_op(rng, biased_small=False):
    r = rng.below(10)
    if r < 3:
        return 'C'
    if r < 6:
        return 'R%d' % rng.choice(SIZES[:6] if biased_small else SIZES)
    chunk = rng.choice([1, 3, 16, 1000, 1 << 20])
    budget = rng.choice([0, 1, 5, 17, 100, 1000, 5000, 1 << 30])
    mode = rng.below(2)
    return 'W%d,%d,%d' % (chunk, budget, mode)


def blocks_program(rng):
    toks = ['I']
    for _ in range(rng.range(0, 8)):
        r = rng.below(10)
        if r < 4:
            toks.append('B?y%d' % rng.choice(SIZES))
        elif r < 6:
            toks.append('B?b%d' % rng.choice([1, 1, 2, 3, 10]))
        elif r < 7:
            toks.append('B?a')
        else:
            toks.append(drain_op(rng))
        if rng.below(4) == 0:
            toks.append(drain_op(rng, True))
        if rng.below(6) == 0:
            toks.append('Q')
    toks.append('Z%s,%d' % (rng.choice('rcw'), rng.choice(SIZES)))
    return toks


def fromto_program(rng, frame_len, with_init=False):
    toks = ['I'] if with_init else []
    first = not with_init
    for _ in range(rng.range(0, 5)):
        c = rng.choice([1, 2, 3, 5, 18, 100, 1000, 70000, frame_len, max(frame_len - 4, 1), max(frame_len - 1, 1), max(frame_len - 5, 1)])
        if first:
            # a fresh decoder initialises from the slice: the whole frame header (at most 18 bytes) must be in it,
            # a shorter slice is an error that leaves the decoder untouched (the finisher Zf exercises that retry)
            c = max(c, 18)
            first = False
        toks.append('F%d,%d' % (c, rng.choice(SIZES)))
    toks.append('Zf,%d' % rng.choice([1, 7, 100, 4096, 200000]))
    return toks


def streaming_program(rng):
    toks = ['SI']
    for _ in range(rng.range(0, 5)):
        toks.append('S%d' % rng.choice([0] + SIZES))
    toks.append('Zs,%d' % rng.choice(SIZES))
    return toks


def checksum_alone_program(rng, frame_len):
    """slice-to-slice with the trailing checksum arriving alone (or in pieces)"""
    t = rng.choice(SIZES)
    toks = ['F%d,%d' % (frame_len - 4, t)]
    r = rng.below(4)
    if r == 0:
        toks += ['F0,%d' % t, 'F2,%d' % t]
    elif r == 1:
        toks += ['F3,%d' % t]
    toks.append('Zf,%d' % rng.choice([4, 100, 4096, 200000]))
    return toks


def sink_stress_program(rng):
    """decode block by block; after every block hand the collectable bytes to a sink that accepts a little and then
    fails or stalls, then retry with a willing sink: exercises partial writes on both ring segments and the guard that
    drops exactly what was accepted"""
    toks = ['I']
    for _ in range(rng.range(6, 40)):
        toks.append(rng.choice(['B?b1', 'B?b1', 'B?y300', 'B?y2000']))
        for _ in range(rng.range(1, 3)):
            toks.append('W%d,%d,%d' % (rng.choice([1, 7, 64, 1 << 20]), rng.choice([1, 3, 50, 200, 700, 1500, 3000]), rng.below(2)))
        if rng.below(2):
            toks.append('W%d,%d,0' % (rng.choice([5, 1000, 1 << 20]), 1 << 30))
    toks.append('Z%s,%d' % (rng.choice('wrc'), rng.choice([3, 1000, 70000])))
    return toks


def random_program(rng, frame_len, has_checksum):
    r = rng.below(13)
    if r >= 10:
        return sink_stress_program(rng)
    if r < 5:
        return blocks_program(rng)
    if r < 7:
        return fromto_program(rng, frame_len, with_init=rng.below(3) == 0)
    if r < 8 and has_checksum and frame_len > 8:
        return checksum_alone_program(rng, frame_len)
    return streaming_program(rng)
