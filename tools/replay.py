#!/usr/bin/env python3
"""replay.py <replay.json>: print the recorded failing input and re-run it on the implementation when it has a 'how'."""
import json, sys, subprocess, os
r = json.load(open(sys.argv[1]))
print(json.dumps(r, indent=1))
how = r.get('replay', {}).get('how')
if how:
    print('$', how)
    sys.exit(subprocess.call(how, shell=True, cwd=os.path.dirname(os.path.dirname(os.path.abspath(__file__)))))
