#!/usr/bin/env python3
"""run_check.py <property> [--tier quick|thorough]   |   run_check.py --setup
Exit 0: the property held on everything explored; exit 1 with a VIOLATION line otherwise."""
import sys, os, importlib, traceback
sys.path.insert(0, os.path.dirname(os.path.abspath(__file__)))
import vlib


def setup():
    ok, msg = vlib.regen()
    print(msg)
    if not ok:
        return 1
    ok, log, dt = vlib.coq_make([])
    print('coq: full build %s in %.0fs' % ('ok' if ok else 'FAILED', dt))
    if not ok:
        print(log[-3000:])
        return 1
    ok, log = vlib.build_harness()
    print('harness build', 'ok' if ok else 'FAILED')
    if not ok:
        print(log[-3000:])
        return 1
    return 0


def main():
    args = sys.argv[1:]
    if args and args[0] == '--setup':
        sys.exit(setup())
    pid = args[0]
    tier = os.environ.get('VERIF_TIER', 'quick')
    if '--tier' in args:
        tier = args[args.index('--tier') + 1]
    chk = vlib.Check(pid, tier)
    try:
        mod = importlib.import_module('checks.' + pid)
        mod.run(chk)
    except Exception:
        chk.tie_broken('check-crashed', traceback.format_exc()[-1500:])
    sys.exit(chk.finish())


if __name__ == '__main__':
    main()
